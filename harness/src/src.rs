//! Choice source: every generated case is a deterministic decoding of a `Vec<u32>` produced by
//! a proptest strategy.  All randomness therefore stays inside proptest (seeded, shrinkable,
//! replayable); decoders are plain functions.  Decoders are written so that choice 0 is always
//! the simplest alternative and an exhausted source yields 0, hence every decoding terminates
//! and shrinking the vector (shorter, smaller numbers) moves toward simpler cases.

pub struct Src<'a> {
    data: &'a [u32],
    pos: usize,
}

impl<'a> Src<'a> {
    pub fn new(data: &'a [u32]) -> Self {
        Src { data, pos: 0 }
    }

    pub fn raw(&mut self) -> u32 {
        let v = self.data.get(self.pos).copied().unwrap_or(0);
        self.pos += 1;
        v
    }

    pub fn exhausted(&self) -> bool {
        self.pos >= self.data.len()
    }

    pub fn remaining(&self) -> usize {
        self.data.len().saturating_sub(self.pos)
    }

    /// uniform in 0..n, monotone in the underlying word (0 -> 0)
    pub fn pick(&mut self, n: usize) -> usize {
        if n <= 1 {
            // still consume a word so that the layout does not depend on table sizes of 1
            self.raw();
            return 0;
        }
        ((self.raw() as u64 * n as u64) >> 32) as usize
    }

    /// inclusive range, lo is the simplest
    pub fn range(&mut self, lo: i64, hi: i64) -> i64 {
        debug_assert!(hi >= lo);
        lo + self.pick((hi - lo + 1) as usize) as i64
    }

    /// true with probability num/den; false is the simple alternative
    pub fn chance(&mut self, num: u32, den: u32) -> bool {
        // high words mean "true" so that shrinking toward 0 turns the option off
        let r = self.raw() as u64;
        r >= ((den - num) as u64 * (1u64 << 32)) / den as u64
    }

    pub fn weighted(&mut self, weights: &[u32]) -> usize {
        let total: u64 = weights.iter().map(|w| *w as u64).sum();
        if total == 0 {
            self.raw();
            return 0;
        }
        let mut x = (self.raw() as u64 * total) >> 32;
        for (i, w) in weights.iter().enumerate() {
            if x < *w as u64 {
                return i;
            }
            x -= *w as u64;
        }
        weights.len() - 1
    }

    pub fn choose<'b, T>(&mut self, items: &'b [T]) -> &'b T {
        &items[self.pick(items.len())]
    }

    pub fn u64(&mut self) -> u64 {
        ((self.raw() as u64) << 32) | self.raw() as u64
    }

    pub fn u128(&mut self) -> u128 {
        ((self.u64() as u128) << 64) | self.u64() as u128
    }
}

pub fn splitmix(mut x: u64) -> u64 {
    x = x.wrapping_add(0x9E3779B97F4A7C15);
    let mut z = x;
    z = (z ^ (z >> 30)).wrapping_mul(0xBF58476D1CE4E5B9);
    z = (z ^ (z >> 27)).wrapping_mul(0x94D049BB133111EB);
    z ^ (z >> 31)
}

pub fn fnv(s: &str) -> u64 {
    let mut h: u64 = 0xcbf29ce484222325;
    for b in s.as_bytes() {
        h ^= *b as u64;
        h = h.wrapping_mul(0x100000001b3);
    }
    h
}
