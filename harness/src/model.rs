//! Reference data model: values (`V`), syntax trees (`R`), canonical S-expressions for
//! comparing trees with the engine's `ExprAST`, renderers, and the reference evaluator.
use crate::bigdec::{Big, BigDec};
use expression_engine::verif_hooks::Literal;
use expression_engine::{ExprAST, Value};
use serde_json::{json, Value as J};
use std::cmp::Ordering;
use std::collections::BTreeMap;

// ---------------------------------------------------------------------------------------
// values

#[derive(Clone, Debug)]
pub enum V {
    Num(BigDec),
    Str(String),
    Bool(bool),
    List(Vec<V>),
    Map(Vec<(V, V)>),
    None,
}

impl V {
    pub fn num(s: &str) -> V {
        V::Num(BigDec::from_literal(s).expect("literal"))
    }
    pub fn int(x: i64) -> V {
        V::Num(BigDec::from_i128(x as i128))
    }
    pub fn type_name(&self) -> &'static str {
        match self {
            V::Num(_) => "num",
            V::Str(_) => "str",
            V::Bool(_) => "bool",
            V::List(_) => "list",
            V::Map(_) => "map",
            V::None => "none",
        }
    }
    pub fn from_value(v: &Value) -> V {
        match v {
            Value::Number(d) => V::Num(BigDec::from_decimal(d)),
            Value::String(s) => V::Str(s.clone()),
            Value::Bool(b) => V::Bool(*b),
            Value::List(l) => V::List(l.iter().map(V::from_value).collect()),
            Value::Map(m) => V::Map(m.iter().map(|(k, v)| (V::from_value(k), V::from_value(v))).collect()),
            Value::None => V::None,
        }
    }
    /// builds an engine value (inputs only); numbers must fit
    pub fn to_value(&self) -> Value {
        match self {
            V::Num(d) => Value::Number(d.to_decimal().expect("representable number")),
            V::Str(s) => Value::String(s.clone()),
            V::Bool(b) => Value::Bool(*b),
            V::List(l) => Value::List(l.iter().map(|x| x.to_value()).collect()),
            V::Map(m) => Value::Map(m.iter().map(|(k, v)| (k.to_value(), v.to_value())).collect()),
            V::None => Value::None,
        }
    }
    /// structural equality, numbers by numeric value
    pub fn eq_value(&self, o: &V) -> bool {
        match (self, o) {
            (V::Num(a), V::Num(b)) => a.eq_value(b),
            (V::Str(a), V::Str(b)) => a == b,
            (V::Bool(a), V::Bool(b)) => a == b,
            (V::None, V::None) => true,
            (V::List(a), V::List(b)) => a.len() == b.len() && a.iter().zip(b).all(|(x, y)| x.eq_value(y)),
            (V::Map(a), V::Map(b)) => {
                a.len() == b.len() && a.iter().zip(b).all(|((k1, v1), (k2, v2))| k1.eq_value(k2) && v1.eq_value(v2))
            }
            _ => false,
        }
    }
    pub fn key(&self) -> String {
        match self {
            V::Num(d) => format!("n{}", d.value_key()),
            V::Str(s) => format!("s{}:{}", s.len(), s),
            V::Bool(b) => format!("b{}", b),
            V::None => "none".into(),
            V::List(l) => format!("[{}]", l.iter().map(|x| x.key()).collect::<Vec<_>>().join(",")),
            V::Map(m) => format!(
                "{{{}}}",
                m.iter().map(|(k, v)| format!("{}=>{}", k.key(), v.key())).collect::<Vec<_>>().join(",")
            ),
        }
    }
    pub fn to_json(&self) -> J {
        match self {
            V::Num(d) => json!({"num": d.to_text()}),
            V::Str(s) => json!({"str": s}),
            V::Bool(b) => json!({"bool": b}),
            V::None => json!("none"),
            V::List(l) => json!({"list": l.iter().map(|x| x.to_json()).collect::<Vec<_>>()}),
            V::Map(m) => json!({"map": m.iter().map(|(k, v)| json!([k.to_json(), v.to_json()])).collect::<Vec<_>>()}),
        }
    }
    pub fn from_json(j: &J) -> Option<V> {
        if j.as_str() == Some("none") {
            return Some(V::None);
        }
        let o = j.as_object()?;
        if let Some(n) = o.get("num") {
            return Some(V::Num(BigDec::from_literal(n.as_str()?)?));
        }
        if let Some(s) = o.get("str") {
            return Some(V::Str(s.as_str()?.to_string()));
        }
        if let Some(b) = o.get("bool") {
            return Some(V::Bool(b.as_bool()?));
        }
        if let Some(l) = o.get("list") {
            return l.as_array()?.iter().map(V::from_json).collect::<Option<Vec<_>>>().map(V::List);
        }
        if let Some(m) = o.get("map") {
            let mut out = vec![];
            for e in m.as_array()? {
                let a = e.as_array()?;
                out.push((V::from_json(a.get(0)?)?, V::from_json(a.get(1)?)?));
            }
            return Some(V::Map(out));
        }
        None
    }
}

// ---------------------------------------------------------------------------------------
// syntax trees

#[derive(Clone, Debug, PartialEq)]
pub enum R {
    /// literal text `digits[.digits]`
    Num(String),
    /// payload, quote character
    Str(String, char),
    /// spelling: true / True / false / False
    Bool(String),
    Ref(String),
    Call(String, Vec<R>),
    List(Vec<R>),
    Map(Vec<(R, R)>),
    Prefix(String, Box<R>),
    Postfix(Box<R>, String),
    Infix(String, Box<R>, Box<R>),
    /// `l not OP r`
    NotInfix(String, Box<R>, Box<R>),
    Cond(Box<R>, Box<R>, Box<R>),
    /// top level only
    Stmts(Vec<R>),
}

pub fn num_key(text: &str) -> String {
    match BigDec::from_literal(text) {
        Some(d) => format!("{}e-{}", d.mant.to_dec_string(), d.scale),
        None => format!("?{}", text),
    }
}

fn sx_str(s: &str) -> String {
    format!("s{}:{}", s.len(), s)
}

impl R {
    /// canonical S-expression; the same format as `sexp_ast` so that equal trees give equal text
    pub fn sexp(&self) -> String {
        match self {
            R::Num(t) => format!("(num {})", num_key(t)),
            R::Str(p, _) => format!("(str {})", sx_str(p)),
            R::Bool(sp) => format!("(bool {})", sp == "true" || sp == "True"),
            R::Ref(n) => format!("(ref {})", sx_str(n)),
            R::Call(n, a) => format!("(call {}{})", sx_str(n), a.iter().map(|x| format!(" {}", x.sexp())).collect::<String>()),
            R::List(a) => format!("(list{})", a.iter().map(|x| format!(" {}", x.sexp())).collect::<String>()),
            R::Map(m) => format!(
                "(map{})",
                m.iter().map(|(k, v)| format!(" ({} {})", k.sexp(), v.sexp())).collect::<String>()
            ),
            R::Prefix(op, x) => format!("(un {} {})", sx_str(op), x.sexp()),
            R::Postfix(x, op) => format!("(post {} {})", sx_str(op), x.sexp()),
            R::Infix(op, l, r) => format!("(bin {} {} {})", sx_str(op), l.sexp(), r.sexp()),
            R::NotInfix(op, l, r) => format!("(un s3:not (bin {} {} {}))", sx_str(op), l.sexp(), r.sexp()),
            R::Cond(c, a, b) => format!("(cond {} {} {})", c.sexp(), a.sexp(), b.sexp()),
            R::Stmts(v) => {
                if v.len() == 1 {
                    v[0].sexp()
                } else {
                    format!("(stmt{})", v.iter().map(|x| format!(" {}", x.sexp())).collect::<String>())
                }
            }
        }
    }

    /// every compound operand parenthesised: grouping does not depend on precedence
    pub fn render_explicit(&self) -> String {
        fn operand(r: &R) -> String {
            match r {
                R::Num(_) | R::Str(..) | R::Bool(_) | R::Ref(_) | R::Call(..) | R::List(_) | R::Map(_) => r.render_explicit(),
                _ => format!("({})", r.render_explicit()),
            }
        }
        match self {
            R::Num(t) => t.clone(),
            R::Str(p, q) => format!("{}{}{}", q, p, q),
            R::Bool(sp) => sp.clone(),
            R::Ref(n) => n.clone(),
            // separators are set off by blanks: a word operator must not touch `,` or `;`
            R::Call(n, a) => format!("{}({})", n, a.iter().map(|x| x.render_explicit()).collect::<Vec<_>>().join(" , ")),
            R::List(a) => format!("[{}]", a.iter().map(|x| x.render_explicit()).collect::<Vec<_>>().join(" , ")),
            R::Map(m) => format!(
                "{{{}}}",
                m.iter()
                    .map(|(k, v)| format!("{} : {}", operand_if_cond(k), v.render_explicit()))
                    .collect::<Vec<_>>()
                    .join(" , ")
            ),
            R::Prefix(op, x) => format!("{} {}", op, operand(x)),
            R::Postfix(x, op) => format!("{} {}", operand(x), op),
            R::Infix(op, l, r) => {
                // `a = b += e`: assignment operators group right to left, so the chain is written flat
                let right = match &**r {
                    R::Infix(op2, ..) if is_assign(op) && is_assign(op2) => r.render_explicit(),
                    _ => operand(r),
                };
                format!("{} {} {}", operand(l), op, right)
            }
            R::NotInfix(op, l, r) => format!("{} not {} {}", operand(l), op, operand(r)),
            R::Cond(c, a, b) => format!("{} ? {} : {}", operand(c), operand(a), operand(b)),
            R::Stmts(v) => v.iter().map(|x| x.render_explicit()).collect::<Vec<_>>().join(" ; "),
        }
    }

    pub fn depth(&self) -> usize {
        1 + match self {
            R::Call(_, a) | R::List(a) | R::Stmts(a) => a.iter().map(|x| x.depth()).max().unwrap_or(0),
            R::Map(m) => m.iter().map(|(k, v)| k.depth().max(v.depth())).max().unwrap_or(0),
            R::Prefix(_, x) | R::Postfix(x, _) => x.depth(),
            R::Infix(_, l, r) | R::NotInfix(_, l, r) => l.depth().max(r.depth()),
            R::Cond(c, a, b) => c.depth().max(a.depth()).max(b.depth()),
            _ => 0,
        }
    }

    pub fn count_ops(&self) -> usize {
        match self {
            R::Call(_, a) => 1 + a.iter().map(|x| x.count_ops()).sum::<usize>(),
            R::List(a) | R::Stmts(a) => a.iter().map(|x| x.count_ops()).sum(),
            R::Map(m) => m.iter().map(|(k, v)| k.count_ops() + v.count_ops()).sum(),
            R::Prefix(_, x) | R::Postfix(x, _) => 1 + x.count_ops(),
            R::Infix(_, l, r) | R::NotInfix(_, l, r) => 1 + l.count_ops() + r.count_ops(),
            R::Cond(c, a, b) => 1 + c.count_ops() + a.count_ops() + b.count_ops(),
            _ => 0,
        }
    }
}

fn operand_if_cond(r: &R) -> String {
    match r {
        R::Cond(..) => format!("({})", r.render_explicit()),
        _ => r.render_explicit(),
    }
}

pub const ASSIGN_OPS: [&str; 11] = ["=", "+=", "-=", "*=", "/=", "%=", "<<=", ">>=", "&=", "^=", "|="];

pub fn is_assign(op: &str) -> bool {
    ASSIGN_OPS.contains(&op)
}

/// canonical S-expression of an engine tree (same format as `R::sexp`)
pub fn sexp_ast(a: &ExprAST) -> String {
    match a {
        ExprAST::Literal(l) => match l {
            Literal::Number(d) => format!(
                "(num {}{}e-{})",
                if d.is_sign_negative() { "-" } else { "" },
                d.mantissa().unsigned_abs(),
                d.scale()
            ),
            Literal::Bool(b) => format!("(bool {})", b),
            Literal::String(s) => format!("(str {})", sx_str(s)),
        },
        ExprAST::Reference(n) => format!("(ref {})", sx_str(n)),
        ExprAST::Function(n, a) => format!("(call {}{})", sx_str(n), a.iter().map(|x| format!(" {}", sexp_ast(x))).collect::<String>()),
        ExprAST::List(a) => format!("(list{})", a.iter().map(|x| format!(" {}", sexp_ast(x))).collect::<String>()),
        ExprAST::Map(m) => format!(
            "(map{})",
            m.iter().map(|(k, v)| format!(" ({} {})", sexp_ast(k), sexp_ast(v))).collect::<String>()
        ),
        ExprAST::Unary(op, x) => format!("(un {} {})", sx_str(op), sexp_ast(x)),
        ExprAST::Postfix(x, op) => format!("(post {} {})", sx_str(op), sexp_ast(x)),
        ExprAST::Binary(op, l, r) => format!("(bin {} {} {})", sx_str(op), sexp_ast(l), sexp_ast(r)),
        ExprAST::Ternary(c, x, y) => format!("(cond {} {} {})", sexp_ast(c), sexp_ast(x), sexp_ast(y)),
        ExprAST::Stmt(v) => format!("(stmt{})", v.iter().map(|x| format!(" {}", sexp_ast(x))).collect::<String>()),
        ExprAST::None => "(none)".to_string(),
    }
}

// ---------------------------------------------------------------------------------------
// reference evaluator

/// id of a context function that always returns an error
pub const FAILING_FUNC: u32 = 9000;

#[derive(Clone, Debug)]
pub enum Binding {
    Var(V),
    /// context function: logger id and the value it returns
    Func(u32, V),
}

#[derive(Clone, Debug)]
pub enum Stop {
    /// the language defines an error here; the text names the reason
    Err(String),
    /// the documentation does not pin the outcome; only "no panic" may be asserted
    Unspec(String),
    /// the injected fault fired
    Fault,
}

#[derive(Clone, Debug)]
pub enum Ev {
    Val(V),
    Err(String),
    Unspec(String),
    Fault,
}

/// harness-registered global handlers known to the model: name -> (logger id, returned value)
#[derive(Clone, Debug, Default)]
pub struct Loggers {
    pub functions: BTreeMap<String, (u32, V)>,
    pub prefix: BTreeMap<String, (u32, V)>,
    pub infix: BTreeMap<String, (u32, V)>,
    pub postfix: BTreeMap<String, (u32, V)>,
    /// infix operators registered as SETTER: `x op e` binds x to the handler's result
    pub setters: BTreeMap<String, (u32, V)>,
    /// handlers return List[id, operands...] instead of their preset (C08)
    pub echo: bool,
}

#[derive(Clone, Debug, Default)]
pub struct Model {
    pub ctx: BTreeMap<String, Binding>,
    pub log: Vec<(u32, Vec<V>)>,
    /// the handler invocation with this 0-based index fails
    pub fault_at: Option<usize>,
    pub loggers: Loggers,
    /// handler id -> (function name, handler id): invoking the handler registers that function
    pub side_effects: BTreeMap<u32, (String, u32)>,
}

type Res = Result<V, Stop>;

fn err(s: &str) -> Stop {
    Stop::Err(s.to_string())
}

impl Model {
    pub fn run(&mut self, r: &R) -> Ev {
        match self.eval(r) {
            Ok(v) => Ev::Val(v),
            Err(Stop::Err(e)) => Ev::Err(e),
            Err(Stop::Unspec(e)) => Ev::Unspec(e),
            Err(Stop::Fault) => Ev::Fault,
        }
    }

    fn logger(&mut self, id: u32, args: Vec<V>, ret: &V) -> Res {
        self.log.push((id, args.clone()));
        if id == FAILING_FUNC {
            return Err(err("context-function-fails"));
        }
        if let Some((name, new_id)) = self.side_effects.get(&id).cloned() {
            self.loggers.functions.insert(name, (new_id, V::None));
        }
        if self.fault_at == Some(self.log.len() - 1) {
            return Err(Stop::Fault);
        }
        if self.loggers.echo {
            let mut v = vec![V::int(id as i64)];
            v.extend(args);
            return Ok(V::List(v));
        }
        Ok(ret.clone())
    }

    pub fn eval(&mut self, r: &R) -> Res {
        match r {
            R::Num(t) => {
                let d = BigDec::from_literal(t).ok_or_else(|| err("malformed-number"))?;
                if !d.fits() {
                    return Err(Stop::Unspec("literal-out-of-range".into()));
                }
                Ok(V::Num(d))
            }
            R::Str(p, _) => Ok(V::Str(p.clone())),
            R::Bool(sp) => Ok(V::Bool(sp == "true" || sp == "True")),
            R::Ref(n) => match self.ctx.get(n).cloned() {
                Some(Binding::Var(v)) => Ok(v),
                Some(Binding::Func(id, ret)) => self.logger(id, vec![], &ret),
                None => Ok(V::None),
            },
            R::Call(n, args) => {
                let mut vals = Vec::new();
                for a in args {
                    vals.push(self.eval(a)?);
                }
                if let Some(Binding::Func(id, ret)) = self.ctx.get(n).cloned() {
                    return self.logger(id, vals, &ret);
                }
                if let Some((id, ret)) = self.loggers.functions.get(n).cloned() {
                    return self.logger(id, vals, &ret);
                }
                builtin_function(n, vals)
            }
            R::List(items) => {
                let mut vals = Vec::new();
                for a in items {
                    vals.push(self.eval(a)?);
                }
                Ok(V::List(vals))
            }
            R::Map(m) => {
                let mut out = Vec::new();
                for (k, v) in m {
                    let kv = self.eval(k)?;
                    let vv = self.eval(v)?;
                    out.push((kv, vv));
                }
                Ok(V::Map(out))
            }
            R::Prefix(op, x) => {
                let v = self.eval(x)?;
                if let Some((id, ret)) = self.loggers.prefix.get(op).cloned() {
                    return self.logger(id, vec![v], &ret);
                }
                apply_prefix(op, v)
            }
            R::Postfix(x, op) => {
                let v = self.eval(x)?;
                if let Some((id, ret)) = self.loggers.postfix.get(op).cloned() {
                    return self.logger(id, vec![v], &ret);
                }
                apply_postfix(op, v)
            }
            R::Infix(op, l, rr) if self.loggers.setters.contains_key(op) => {
                let (id, ret) = self.loggers.setters[op].clone();
                let name = match &**l {
                    R::Ref(n) => n.clone(),
                    _ => return Err(err("assign-target")),
                };
                let cur = self.eval(l)?;
                let rhs = self.eval(rr)?;
                let v = self.logger(id, vec![cur, rhs], &ret)?;
                self.ctx.insert(name, Binding::Var(v));
                Ok(V::None)
            }
            R::Infix(op, l, rr) if is_assign(op) && !self.loggers.infix.contains_key(op) => {
                let name = match &**l {
                    R::Ref(n) => n.clone(),
                    _ => return Err(err("assign-target")),
                };
                // the target is read first (left to right), then the right side
                let cur = self.eval(l)?;
                let rhs = self.eval(rr)?;
                let v = if op == "=" {
                    rhs
                } else {
                    apply_infix(&op[..op.len() - 1], cur, rhs)?
                };
                self.ctx.insert(name, Binding::Var(v));
                Ok(V::None)
            }
            R::Infix(op, l, rr) => {
                let a = self.eval(l)?;
                let b = self.eval(rr)?;
                if let Some((id, ret)) = self.loggers.infix.get(op).cloned() {
                    return self.logger(id, vec![a, b], &ret);
                }
                apply_infix(op, a, b)
            }
            R::NotInfix(op, l, rr) => {
                // `x not OP y` is not(x OP y): whatever OP is at this moment (built-in, overridden,
                // assignment, user SETTER) is evaluated exactly as in `x OP y`
                let v = self.eval(&R::Infix(op.clone(), l.clone(), rr.clone()))?;
                // the `not` of this form is the prefix operator `not`: a handler registered for it applies
                if let Some((id, ret)) = self.loggers.prefix.get("not").cloned() {
                    return self.logger(id, vec![v], &ret);
                }
                match v {
                    V::Bool(x) => Ok(V::Bool(!x)),
                    _ => Err(err("not-on-non-bool")),
                }
            }
            R::Cond(c, a, b) => match self.eval(c)? {
                V::Bool(true) => self.eval(a),
                V::Bool(false) => self.eval(b),
                _ => Err(err("condition-not-bool")),
            },
            R::Stmts(v) => {
                let mut last = V::None;
                for s in v {
                    last = self.eval(s)?;
                }
                Ok(last)
            }
        }
    }
}

fn num_result(d: BigDec) -> Res {
    if d.magnitude_overflows() {
        return Err(err("overflow"));
    }
    if d.fits() {
        return Ok(V::Num(d));
    }
    let s = d.stripped();
    if s.fits() {
        return Ok(V::Num(s));
    }
    Err(Stop::Unspec("needs-rounding".into()))
}

/// exact quotient when it terminates within 28 places; `Unspec` otherwise
pub fn exact_div(a: &BigDec, b: &BigDec) -> Res {
    if b.is_zero() {
        return Err(err("divide-by-zero"));
    }
    if a.is_zero() {
        return Ok(V::Num(BigDec::zero()));
    }
    // a/b = ma * 10^sb / (mb * 10^sa)
    let num0 = a.mant.mul(&Big::pow10(b.scale));
    let den = b.mant.mul(&Big::pow10(a.scale));
    // magnitude check on the integer part
    let (ip, _) = num0.divrem(&den);
    if ip.cmp(&Big::max96()) == Ordering::Greater {
        return Err(err("overflow"));
    }
    for s in 0..=28u32 {
        let num = num0.mul(&Big::pow10(s));
        let (q, r) = num.divrem(&den);
        if r.is_zero() {
            let d = BigDec {
                neg: a.neg != b.neg,
                mant: q,
                scale: s,
            };
            if d.fits() {
                return Ok(V::Num(d));
            }
            return Err(Stop::Unspec("quotient-needs-rounding".into()));
        }
    }
    Err(Stop::Unspec("inexact-quotient".into()))
}

pub fn apply_prefix(op: &str, v: V) -> Res {
    match op {
        "-" => match v {
            V::Num(d) => Ok(V::Num(d.negated())),
            _ => Err(err("type")),
        },
        "+" => match v {
            V::Num(d) => Ok(V::Num(d)),
            _ => Err(err("type")),
        },
        "!" | "not" => match v {
            V::Bool(b) => Ok(V::Bool(!b)),
            _ => Err(err("type")),
        },
        "AND" | "OR" => {
            let deciding = op == "OR";
            let list = match v {
                V::List(l) => l,
                _ => return Err(err("type")),
            };
            let mut decided = false;
            for x in &list {
                match x {
                    V::Bool(b) => {
                        if *b == deciding {
                            decided = true;
                        }
                    }
                    _ => {
                        if decided {
                            // the aggregate's value is already determined; whether the rest of
                            // the list is still type-checked is not stated
                            return Err(Stop::Unspec("non-bool-after-deciding-element".into()));
                        }
                        return Err(err("type"));
                    }
                }
            }
            Ok(V::Bool(if decided { deciding } else { !deciding }))
        }
        _ => Err(err("unknown-prefix-operator")),
    }
}

pub fn apply_postfix(op: &str, v: V) -> Res {
    let one = BigDec::from_i128(1);
    match (op, v) {
        ("++", V::Num(d)) => num_result(d.add(&one)),
        ("--", V::Num(d)) => num_result(d.sub(&one)),
        ("++", _) | ("--", _) => Err(err("type")),
        _ => Err(err("unknown-postfix-operator")),
    }
}

fn int_operand(v: &V) -> Result<i64, Stop> {
    match v {
        V::Num(d) => d.to_i64().ok_or_else(|| err("not-an-i64")),
        _ => Err(err("type")),
    }
}

pub fn apply_infix(op: &str, a: V, b: V) -> Res {
    match op {
        "+" | "-" | "*" | "/" | "%" => {
            let (x, y) = match (&a, &b) {
                (V::Num(x), V::Num(y)) => (x, y),
                _ => return Err(err("type")),
            };
            match op {
                "+" => num_result(x.add(y)),
                "-" => num_result(x.sub(y)),
                "*" => num_result(x.mul(y)),
                "/" => exact_div(x, y),
                _ => {
                    if y.is_zero() {
                        return Err(err("divide-by-zero"));
                    }
                    let s = x.scale.max(y.scale);
                    // aligning the operands must itself stay in range for the engine's decimal
                    if s > 28 {
                        return Err(Stop::Unspec("scale".into()));
                    }
                    let r = x.rem(y);
                    if r.fits() {
                        Ok(V::Num(r))
                    } else {
                        num_result(r)
                    }
                }
            }
        }
        "<" | "<=" | ">" | ">=" => {
            let (x, y) = match (&a, &b) {
                (V::Num(x), V::Num(y)) => (x, y),
                _ => return Err(err("type")),
            };
            let c = x.cmp_value(y);
            Ok(V::Bool(match op {
                "<" => c == Ordering::Less,
                "<=" => c != Ordering::Greater,
                ">" => c == Ordering::Greater,
                _ => c != Ordering::Less,
            }))
        }
        "==" => Ok(V::Bool(a.eq_value(&b))),
        "!=" => Ok(V::Bool(!a.eq_value(&b))),
        "&&" | "||" => match (&a, &b) {
            (V::Bool(x), V::Bool(y)) => Ok(V::Bool(if op == "&&" { *x && *y } else { *x || *y })),
            _ => Err(err("type")),
        },
        "|" | "^" | "&" | "<<" | ">>" => {
            // type errors first (either operand), then range errors
            if !matches!(a, V::Num(_)) || !matches!(b, V::Num(_)) {
                return Err(err("type"));
            }
            let x = int_operand(&a)?;
            let y = int_operand(&b)?;
            let r = match op {
                "|" => x | y,
                "^" => x ^ y,
                "&" => x & y,
                _ => {
                    if !(0..=63).contains(&y) {
                        return Err(err("shift-count"));
                    }
                    if op == "<<" {
                        ((x as u64) << y) as i64
                    } else {
                        x >> y
                    }
                }
            };
            Ok(V::int(r))
        }
        "beginWith" | "endWith" => match (&a, &b) {
            (V::Str(x), V::Str(y)) => Ok(V::Bool(if op == "beginWith" {
                x.as_bytes().starts_with(y.as_bytes())
            } else {
                x.as_bytes().ends_with(y.as_bytes())
            })),
            _ => Err(err("type")),
        },
        "in" => match &b {
            V::List(l) => Ok(V::Bool(l.iter().any(|x| x.eq_value(&a)))),
            _ => Err(err("type")),
        },
        _ => Err(err("unknown-infix-operator")),
    }
}

pub fn builtin_function(name: &str, args: Vec<V>) -> Res {
    match name {
        "min" | "max" | "sum" | "mul" => {
            let mut nums = Vec::new();
            for a in &args {
                match a {
                    V::Num(d) => nums.push(d.clone()),
                    _ => return Err(err("type")),
                }
            }
            if nums.is_empty() {
                return match name {
                    "min" | "max" => Err(err("empty-aggregate")),
                    // sum() / mul(): the identity is a defensible answer and so is an error
                    _ => Err(Stop::Unspec("empty-sum-or-mul".into())),
                };
            }
            match name {
                "min" | "max" => {
                    let mut best = nums[0].clone();
                    for d in &nums[1..] {
                        let c = d.cmp_value(&best);
                        if (name == "min" && c == Ordering::Less) || (name == "max" && c == Ordering::Greater) {
                            best = d.clone();
                        }
                    }
                    Ok(V::Num(best))
                }
                _ => {
                    // a left fold: as long as every partial result is exactly representable the
                    // next one is known exactly; the first partial result that certainly leaves the
                    // range is an overflow, the first that needs rounding ends what can be said
                    let mut acc = nums[0].clone();
                    for d in &nums[1..] {
                        acc = if name == "sum" { acc.add(d) } else { acc.mul(d) };
                        if acc.magnitude_overflows() {
                            return Err(err("overflow"));
                        }
                        if !acc.representable() {
                            return Err(Stop::Unspec("intermediate-needs-rounding".into()));
                        }
                    }
                    num_result(acc)
                }
            }
        }
        _ => Err(err("unknown-function")),
    }
}

/// compares an engine outcome (`Ok(value)` / `Err(text)` / panic) with the model's
pub fn agree(engine: &Result<Result<Value, String>, String>, model: &Ev) -> Result<(), String> {
    match engine {
        Err(p) => Err(format!("engine panicked: {}", p)),
        Ok(res) => match (res, model) {
            (_, Ev::Unspec(_)) => Ok(()),
            (Ok(v), Ev::Val(m)) => {
                let ev = V::from_value(v);
                if ev.eq_value(m) && ev.type_name() == m.type_name() {
                    Ok(())
                } else {
                    Err(format!("engine returned {} but the language defines {}", ev.key(), m.key()))
                }
            }
            (Err(e), Ev::Val(m)) => Err(format!("engine returned Err({}) but the language defines {}", e, m.key())),
            (Err(_), Ev::Err(_)) | (Err(_), Ev::Fault) => Ok(()),
            (Ok(v), Ev::Err(why)) => Err(format!(
                "engine returned {} but an error is required ({})",
                V::from_value(v).key(),
                why
            )),
            (Ok(v), Ev::Fault) => Err(format!(
                "engine returned {} although a handler failed",
                V::from_value(v).key()
            )),
        },
    }
}
