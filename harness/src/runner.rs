//! Generic driver: sharding over processes, proptest-driven choice vectors, shrinking, known
//! findings, replay corpus, evidence.
use crate::src::{fnv, splitmix, Src};
use proptest::prelude::*;
use proptest::test_runner::{Config, RngAlgorithm, RngSeed, TestCaseError, TestError, TestRunner};
use serde_json::{json, Map, Value};
use std::cell::RefCell;
use std::collections::{BTreeMap, HashSet};
use std::io::{Read, Write};
use std::path::{Path, PathBuf};
use std::process::{Command, Stdio};
use std::time::{Duration, Instant};

pub const VERIF: &str = "/verif";
pub const PROFILE: &str = if cfg!(debug_assertions) { "dev" } else { "release" };

#[derive(Clone, Copy, PartialEq, Eq, Debug)]
pub enum Tier {
    Quick,
    Thorough,
}

impl Tier {
    pub fn name(&self) -> &'static str {
        match self {
            Tier::Quick => "quick",
            Tier::Thorough => "thorough",
        }
    }
    pub fn pick<T>(&self, q: T, t: T) -> T {
        match self {
            Tier::Quick => q,
            Tier::Thorough => t,
        }
    }
}

#[derive(Debug, Clone)]
pub struct Failure {
    pub sig: String,
    pub detail: String,
    pub case: Value,
}

impl Failure {
    pub fn new(sig: impl Into<String>, detail: impl Into<String>, case: Value) -> Self {
        Failure {
            sig: sig.into(),
            detail: detail.into(),
            case,
        }
    }
}

pub type CaseResult = Result<(), Failure>;

#[derive(Default)]
pub struct Stats {
    pub evals: u64,
    pub nontrivial: HashSet<u64>,
    pub hist: BTreeMap<String, u64>,
    pub excluded: BTreeMap<String, u64>,
    pub known_hits: BTreeMap<String, u64>,
    pub samples: Vec<Value>,
    pub extra: BTreeMap<String, Value>,
    pub counting: bool,
    next_sample_at: u64,
}

impl Stats {
    pub fn new() -> Self {
        Stats {
            counting: true,
            next_sample_at: 1,
            ..Default::default()
        }
    }
    /// one executed case (not counted while shrinking)
    pub fn eval(&mut self) {
        if self.counting {
            self.evals += 1;
        }
    }
    pub fn evals_add(&mut self, n: u64) {
        if self.counting {
            self.evals += n;
        }
    }
    pub fn nontrivial(&mut self, key: &str) {
        if self.counting {
            self.nontrivial.insert(fnv(key));
        }
    }
    pub fn hist(&mut self, key: &str) {
        if self.counting {
            *self.hist.entry(key.to_string()).or_insert(0) += 1;
        }
    }
    pub fn hist_add(&mut self, key: &str, n: u64) {
        if self.counting {
            *self.hist.entry(key.to_string()).or_insert(0) += n;
        }
    }
    pub fn exclude(&mut self, key: &str) {
        if self.counting {
            *self.excluded.entry(key.to_string()).or_insert(0) += 1;
        }
    }
    /// records a sample at geometrically spaced evaluation counts (1, 2, 4, ...; at most ~24)
    pub fn sample(&mut self, f: impl FnOnce() -> Value) {
        if self.counting && self.evals >= self.next_sample_at && self.samples.len() < 24 {
            self.samples.push(f());
            self.next_sample_at = (self.next_sample_at * 3).max(self.evals + 1);
        }
    }
    pub fn add_extra(&mut self, key: &str, n: u64) {
        if self.counting {
            let cur = self.extra.get(key).and_then(|v| v.as_u64()).unwrap_or(0);
            self.extra.insert(key.to_string(), json!(cur + n));
        }
    }
    pub fn set_extra(&mut self, key: &str, v: Value) {
        self.extra.insert(key.to_string(), v);
    }
}

pub struct Budget {
    /// generated cases in total (split over shards)
    pub cases: u64,
    /// maximal length of the choice vector
    pub max_len: usize,
    /// number of shard processes
    pub shards: usize,
    /// run every case in the dev build too: odd shards use the debug binary with the seed of
    /// the even shard before them
    pub dual_profile: bool,
}

pub struct Env {
    pub id: &'static str,
    pub tier: Tier,
    pub seed: u64,
    pub shard: usize,
    pub of: usize,
    pub exe: PathBuf,
    pub known: Vec<Known>,
    /// replay mode: perform blocking / aborting actions for real
    pub strict: bool,
    /// build profile of this binary
    pub profile: &'static str,
    pub out_dir: PathBuf,
}

impl Env {
    /// true if item `i` of a deterministic enumeration belongs to this shard
    pub fn mine(&self, i: u64) -> bool {
        (i % self.of as u64) as usize == self.shard
    }
    pub fn is_known(&self, sig: &str) -> bool {
        self.known.iter().any(|k| k.matches(sig))
    }
}

pub struct Prop {
    pub id: &'static str,
    pub rule: &'static str,
    pub assumptions: &'static [&'static str],
    pub budget: fn(Tier) -> Budget,
    /// once per process, before anything else
    pub setup: fn(),
    /// one generated case
    pub case: fn(&mut Src, &mut Stats, &Env) -> CaseResult,
    /// deterministic / exhaustive part, sharded with `env.mine(i)`
    pub fixed: fn(&Env, &mut Stats) -> CaseResult,
    /// re-executes a saved case (the `case` member of a replay file) without proptest;
    /// `None` = this property replays through the choice vector only
    pub replay: Option<fn(&Value, &mut Stats, &Env) -> CaseResult>,
    /// write the choice vector to disk before each case so that an abort can be attributed
    pub breadcrumb: bool,
    /// libFuzzer campaigns run in the thorough tier
    pub fuzz: &'static [Fuzz],
}

pub struct Fuzz {
    /// binary in harness/fuzz
    pub target: &'static str,
    /// the bytes are this property's choice vector (target `choice`) rather than program text
    pub choice: bool,
    pub runs: u64,
    pub max_len: usize,
}

#[derive(Clone, Debug)]
pub struct Known {
    pub property: String,
    pub sig: String,
    pub replay: String,
    pub what: String,
}

impl Known {
    /// a listed signature matches exactly, or as a prefix when it ends with '*'
    pub fn matches(&self, sig: &str) -> bool {
        if let Some(p) = self.sig.strip_suffix('*') {
            sig.starts_with(p)
        } else {
            self.sig == sig
        }
    }
}

pub fn load_known(id: &str) -> Vec<Known> {
    let text = std::fs::read_to_string(format!("{}/KNOWN_FINDINGS.txt", VERIF)).unwrap_or_default();
    let mut ans = Vec::new();
    for line in text.lines() {
        let line = line.trim();
        if !line.starts_with("known:") {
            continue;
        }
        let (head, what) = match line.split_once("::") {
            Some((h, w)) => (h, w.trim().to_string()),
            None => (line, String::new()),
        };
        let mut k = Known {
            property: String::new(),
            sig: String::new(),
            replay: String::new(),
            what,
        };
        for tok in head.split_whitespace() {
            if let Some(v) = tok.strip_prefix("property=") {
                k.property = v.to_string();
            } else if let Some(v) = tok.strip_prefix("sig=") {
                k.sig = v.to_string();
            } else if let Some(v) = tok.strip_prefix("replay=") {
                k.replay = v.to_string();
            }
        }
        if k.property == id {
            ans.push(k);
        }
    }
    ans
}

// ---------------------------------------------------------------------------------------
// panic capture

thread_local! {
    static LAST_PANIC: RefCell<Option<String>> = RefCell::new(None);
}

pub fn install_panic_hook() {
    std::panic::set_hook(Box::new(|info| {
        let loc = info
            .location()
            .map(|l| format!("{}:{}", l.file(), l.line()))
            .unwrap_or_else(|| "?".into());
        let msg = if let Some(s) = info.payload().downcast_ref::<&str>() {
            s.to_string()
        } else if let Some(s) = info.payload().downcast_ref::<String>() {
            s.clone()
        } else {
            "<non-string payload>".to_string()
        };
        LAST_PANIC.with(|p| *p.borrow_mut() = Some(format!("{} :: {}", loc, msg)));
    }));
}

/// Runs `f`, turning an unwind into `Err("file:line :: message")`.
pub fn guard<T>(f: impl FnOnce() -> T) -> Result<T, String> {
    LAST_PANIC.with(|p| *p.borrow_mut() = None);
    match std::panic::catch_unwind(std::panic::AssertUnwindSafe(f)) {
        Ok(v) => Ok(v),
        Err(_) => Err(LAST_PANIC
            .with(|p| p.borrow_mut().take())
            .unwrap_or_else(|| "?:0 :: <unknown panic>".into())),
    }
}

/// `src/operator.rs:123 :: msg` -> `operator.rs` (stable across line shifts)
pub fn panic_file(desc: &str) -> String {
    let loc = desc.split(" :: ").next().unwrap_or("?");
    let file = loc.rsplit_once(':').map(|x| x.0).unwrap_or(loc);
    let short = file.rsplit('/').next().unwrap_or(file);
    short.to_string()
}

// ---------------------------------------------------------------------------------------
// child processes

#[derive(Debug)]
pub enum ChildEnd {
    Exit(i32),
    Signal(i32),
    Timeout,
}

pub struct ChildOut {
    pub end: ChildEnd,
    pub stdout: String,
    pub stderr: String,
    pub wall: Duration,
}

/// Spawns `exe args`, feeds `input` on stdin, waits up to `timeout`.
pub fn run_child(exe: &Path, args: &[&str], input: &str, timeout: Duration) -> ChildOut {
    use std::os::unix::process::ExitStatusExt;
    let t0 = Instant::now();
    let mut child = Command::new(exe)
        .args(args)
        .stdin(Stdio::piped())
        .stdout(Stdio::piped())
        .stderr(Stdio::piped())
        .spawn()
        .expect("spawn child");
    {
        let mut stdin = child.stdin.take().unwrap();
        let _ = stdin.write_all(input.as_bytes());
    }
    let mut out = child.stdout.take().unwrap();
    let mut err = child.stderr.take().unwrap();
    let h_out = std::thread::spawn(move || {
        let mut s = Vec::new();
        let _ = out.read_to_end(&mut s);
        String::from_utf8_lossy(&s).to_string()
    });
    let h_err = std::thread::spawn(move || {
        let mut s = Vec::new();
        let _ = err.read_to_end(&mut s);
        let s = String::from_utf8_lossy(&s).to_string();
        if s.len() > 4000 {
            s[s.len() - 4000..].to_string()
        } else {
            s
        }
    });
    let mut sleep = Duration::from_micros(100);
    let end = loop {
        match child.try_wait() {
            Ok(Some(st)) => {
                break if let Some(c) = st.code() {
                    ChildEnd::Exit(c)
                } else {
                    ChildEnd::Signal(st.signal().unwrap_or(-1))
                }
            }
            Ok(None) => {
                if t0.elapsed() > timeout {
                    let _ = child.kill();
                    let _ = child.wait();
                    break ChildEnd::Timeout;
                }
                std::thread::sleep(sleep);
                if sleep < Duration::from_millis(2) {
                    sleep *= 2;
                }
            }
            Err(_) => break ChildEnd::Exit(-1),
        }
    };
    let stdout = h_out.join().unwrap_or_default();
    let stderr = h_err.join().unwrap_or_default();
    ChildOut {
        end,
        stdout,
        stderr,
        wall: t0.elapsed(),
    }
}

// ---------------------------------------------------------------------------------------
// shard

fn stats_to_json(st: &Stats) -> Value {
    json!({
        "evals": st.evals,
        "hist": st.hist,
        "excluded": st.excluded,
        "known_hits": st.known_hits,
        "samples": st.samples,
        "extra": st.extra,
    })
}

fn handle(env: &Env, st: &mut Stats, r: CaseResult) -> CaseResult {
    match r {
        Ok(()) => Ok(()),
        Err(f) => {
            if env.is_known(&f.sig) {
                if st.counting {
                    *st.known_hits.entry(f.sig.clone()).or_insert(0) += 1;
                }
                Ok(())
            } else {
                Err(f)
            }
        }
    }
}

fn replay_value(prop: &Prop, env: &Env, st: &mut Stats, v: &Value) -> CaseResult {
    if let (Some(rp), Some(case)) = (prop.replay, v.get("case")) {
        if !case.is_null() {
            return rp(case, st, env);
        }
    }
    let choices: Vec<u32> = v
        .get("choices")
        .and_then(|c| c.as_array())
        .map(|a| a.iter().map(|x| x.as_u64().unwrap_or(0) as u32).collect())
        .unwrap_or_default();
    let mut src = Src::new(&choices);
    (prop.case)(&mut src, st, env)
}

pub fn shard_main(prop: &Prop, env: Env) -> i32 {
    install_panic_hook();
    (prop.setup)();
    let st = RefCell::new(Stats::new());
    let mut failure: Option<(Failure, Vec<u32>)> = None;
    let t0 = Instant::now();

    // 1. replay corpus (shard 0)
    if env.shard == 0 {
        let dir = format!("{}/replays/{}", VERIF, env.id);
        let mut files: Vec<PathBuf> = std::fs::read_dir(&dir)
            .map(|d| d.filter_map(|e| e.ok().map(|e| e.path())).collect())
            .unwrap_or_default();
        files.sort();
        for f in files {
            if f.extension().map(|e| e != "json").unwrap_or(true) {
                continue;
            }
            let text = std::fs::read_to_string(&f).unwrap_or_default();
            let v: Value = match serde_json::from_str(&text) {
                Ok(v) => v,
                Err(_) => continue,
            };
            let r = {
                let mut s = st.borrow_mut();
                s.add_extra("corpus_replays", 1);
                let r = replay_value(prop, &env, &mut s, &v);
                handle(&env, &mut s, r)
            };
            if let Err(mut fl) = r {
                fl.detail = format!("(replay corpus file {}) {}", f.display(), fl.detail);
                failure = Some((fl, vec![]));
                break;
            }
        }
    }

    // 2. deterministic part
    if failure.is_none() {
        let r = {
            let mut s = st.borrow_mut();
            let r = (prop.fixed)(&env, &mut s);
            handle(&env, &mut s, r)
        };
        if let Err(fl) = r {
            failure = Some((fl, vec![]));
        }
    }

    // 3. generated part
    let budget = (prop.budget)(env.tier);
    let groups = if budget.dual_profile { (env.of as u64 / 2).max(1) } else { env.of as u64 };
    let my_cases = (budget.cases / groups).max(if budget.cases > 0 { 1 } else { 0 });
    if failure.is_none() && my_cases > 0 {
        let seed_index = if budget.dual_profile { env.shard / 2 } else { env.shard };
        let seed = splitmix(env.seed ^ splitmix(fnv(env.id) ^ (seed_index as u64 + 1)));
        let mut seed_bytes = [0u8; 32];
        for i in 0..4 {
            seed_bytes[i * 8..i * 8 + 8].copy_from_slice(&splitmix(seed + i as u64).to_le_bytes());
        }
        let _ = seed_bytes;
        let config = Config {
            cases: my_cases.min(u32::MAX as u64) as u32,
            max_shrink_iters: 3000,
            failure_persistence: None,
            rng_algorithm: RngAlgorithm::ChaCha,
            rng_seed: RngSeed::Fixed(seed),
            max_global_rejects: 1,
            ..Config::default()
        };
        let mut runner = TestRunner::new(config);
        let strat = proptest::collection::vec(any::<u32>(), 0..=budget.max_len);
        let crumb = env.out_dir.join(format!("shard-{}.last", env.shard));
        // in-process watchdog: a generated case that makes no progress for 60 s ends the shard
        // with exit code 98; the breadcrumb then names the case
        let progress = std::sync::Arc::new(std::sync::atomic::AtomicU64::new(0));
        let finished = std::sync::Arc::new(std::sync::atomic::AtomicBool::new(false));
        if prop.breadcrumb {
            let (p2, f2) = (progress.clone(), finished.clone());
            std::thread::spawn(move || {
                use std::sync::atomic::Ordering::SeqCst;
                let mut last = p2.load(SeqCst);
                let mut since = Instant::now();
                loop {
                    std::thread::sleep(Duration::from_millis(500));
                    if f2.load(SeqCst) {
                        return;
                    }
                    let cur = p2.load(SeqCst);
                    if cur != last {
                        last = cur;
                        since = Instant::now();
                    } else if since.elapsed() > Duration::from_secs(60) {
                        std::process::exit(98);
                    }
                }
            });
        }
        // the first failure as it happened: racy cases may not fail again while shrinking
        let first_fail: RefCell<Option<(Failure, Vec<u32>)>> = RefCell::new(None);
        // shrinking gets 90 s of wall clock (a case that ends in a watchdog expiry costs tens of
        // seconds per attempt); after that every further candidate is answered "passes", which
        // leaves the smallest failing case found so far
        let shrink_deadline: RefCell<Option<Instant>> = RefCell::new(None);
        let res = runner.run(&strat, |v| {
            progress.fetch_add(1, std::sync::atomic::Ordering::SeqCst);
            if let Some(d) = *shrink_deadline.borrow() {
                if Instant::now() > d {
                    return Ok(());
                }
            }
            if prop.breadcrumb {
                let _ = std::fs::write(&crumb, serde_json::to_vec(&v).unwrap_or_default());
            }
            let mut s = st.borrow_mut();
            let mut src = Src::new(&v);
            let r = (prop.case)(&mut src, &mut s, &env);
            match handle(&env, &mut s, r) {
                Ok(()) => Ok(()),
                Err(f) => {
                    s.counting = false;
                    if first_fail.borrow().is_none() {
                        *first_fail.borrow_mut() = Some((f.clone(), v.clone()));
                        *shrink_deadline.borrow_mut() = Some(Instant::now() + Duration::from_secs(90));
                    }
                    Err(TestCaseError::fail(f.sig))
                }
            }
        });
        finished.store(true, std::sync::atomic::Ordering::SeqCst);
        if let Err(e) = res {
            match e {
                TestError::Fail(_, minimal) => {
                    let mut s = Stats::new();
                    s.counting = false;
                    let mut src = Src::new(&minimal);
                    let r = (prop.case)(&mut src, &mut s, &env);
                    match handle(&env, &mut s, r) {
                        Err(f) => failure = Some((f, minimal)),
                        Ok(()) => {
                            // not reproduced after shrinking (a sampled interleaving): report the
                            // failure as first observed, with the unshrunk case
                            let (mut f, choices) = first_fail.borrow_mut().take().unwrap_or((Failure::new("flaky", "a failure was seen but not recorded", json!(null)), minimal));
                            f.detail = format!("{}\n    (observed once; it did not recur while shrinking, so the case is reported unshrunk)", f.detail);
                            failure = Some((f, choices));
                        }
                    }
                }
                TestError::Abort(r) => {
                    failure = Some((
                        Failure::new("harness-abort", format!("proptest aborted: {}", r), json!(null)),
                        vec![],
                    ));
                }
            }
        }
    }

    // 4. write result
    let s = st.into_inner();
    let mut doc = stats_to_json(&s);
    doc["wall_s"] = json!(t0.elapsed().as_secs_f64());
    if let Some((f, choices)) = &failure {
        doc["failure"] = json!({"sig": f.sig, "detail": f.detail, "case": f.case, "choices": choices});
    }
    let base = env.out_dir.join(format!("shard-{}", env.shard));
    let mut hashes: Vec<u8> = Vec::with_capacity(s.nontrivial.len() * 8);
    for h in &s.nontrivial {
        hashes.extend_from_slice(&h.to_le_bytes());
    }
    std::fs::write(base.with_extension("hashes"), hashes).expect("write hashes");
    std::fs::write(base.with_extension("json"), serde_json::to_vec(&doc).unwrap()).expect("write shard json");
    0
}

// ---------------------------------------------------------------------------------------
// parent

fn merge_count(into: &mut BTreeMap<String, u64>, v: Option<&Value>) {
    if let Some(Value::Object(m)) = v {
        for (k, n) in m {
            *into.entry(k.clone()).or_insert(0) += n.as_u64().unwrap_or(0);
        }
    }
}

pub fn parent_main(prop: &Prop, tier: Tier, seed: u64, exe: PathBuf) -> i32 {
    let t0 = Instant::now();
    let budget = (prop.budget)(tier);
    let of = budget.shards.max(1);
    let out_dir = PathBuf::from(format!("{}/out/run/{}-{}", VERIF, prop.id, std::process::id()));
    let _ = std::fs::remove_dir_all(&out_dir);
    std::fs::create_dir_all(&out_dir).expect("create out dir");
    let known = load_known(prop.id);

    let mut children = Vec::new();
    let debug_exe = PathBuf::from(format!("{}/out/target/debug/vh", VERIF));
    for i in 0..of {
        let child = Command::new(if budget.dual_profile && i % 2 == 1 { &debug_exe } else { &exe })
            .args([
                "shard",
                prop.id,
                "--tier",
                tier.name(),
                "--seed",
                &seed.to_string(),
                "--index",
                &i.to_string(),
                "--of",
                &of.to_string(),
                "--out",
                out_dir.to_str().unwrap(),
            ])
            .stdin(Stdio::null())
            .spawn()
            .expect("spawn shard");
        children.push(child);
    }
    let mut evals = 0u64;
    let mut hist = BTreeMap::new();
    let mut excluded = BTreeMap::new();
    let mut known_hits = BTreeMap::new();
    let mut extra: BTreeMap<String, Value> = BTreeMap::new();
    let mut samples: Vec<Value> = Vec::new();
    let mut hashes: HashSet<u64> = HashSet::new();
    let mut failures: Vec<Value> = Vec::new();
    let mut inconclusive: Vec<String> = Vec::new();
    for (i, mut c) in children.into_iter().enumerate() {
        use std::os::unix::process::ExitStatusExt;
        let status = c.wait().expect("wait shard");
        let base = out_dir.join(format!("shard-{}", i));
        let doc: Option<Value> = std::fs::read(base.with_extension("json"))
            .ok()
            .and_then(|b| serde_json::from_slice(&b).ok());
        if !status.success() || doc.is_none() {
            // the shard died; with a breadcrumb the last case is the culprit
            let crumb = out_dir.join(format!("shard-{}.last", i));
            let sigdesc = status
                .signal()
                .map(|s| format!("signal-{}", s))
                .unwrap_or_else(|| if status.code() == Some(98) { "hang-60s".to_string() } else { format!("exit-{}", status.code().unwrap_or(-1)) });
            if prop.breadcrumb && crumb.exists() {
                let choices: Value = std::fs::read(&crumb)
                    .ok()
                    .and_then(|b| serde_json::from_slice(&b).ok())
                    .unwrap_or(json!([]));
                failures.push(json!({"sig": format!("abort:{}", sigdesc), "detail": format!("shard {} died ({}) while running this case", i, sigdesc), "case": null, "choices": choices}));
            } else {
                inconclusive.push(format!("shard {} died ({}) without a result", i, sigdesc));
            }
            continue;
        }
        let doc = doc.unwrap();
        evals += doc["evals"].as_u64().unwrap_or(0);
        merge_count(&mut hist, doc.get("hist"));
        merge_count(&mut excluded, doc.get("excluded"));
        merge_count(&mut known_hits, doc.get("known_hits"));
        if let Some(Value::Object(m)) = doc.get("extra") {
            for (k, v) in m {
                match (extra.get(k).and_then(|x| x.as_u64()), v.as_u64()) {
                    (Some(a), Some(b)) => {
                        extra.insert(k.clone(), json!(a + b));
                    }
                    (None, _) => {
                        extra.insert(k.clone(), v.clone());
                    }
                    _ => {}
                }
            }
        }
        if let Some(Value::Array(a)) = doc.get("samples") {
            for (j, s) in a.iter().enumerate() {
                // spread samples over shards: take a few from each
                if samples.len() < 16 && (i == 0 || j % 4 == i % 4) {
                    samples.push(s.clone());
                }
            }
        }
        if let Ok(b) = std::fs::read(base.with_extension("hashes")) {
            for ch in b.chunks_exact(8) {
                hashes.insert(u64::from_le_bytes(ch.try_into().unwrap()));
            }
        }
        if let Some(f) = doc.get("failure") {
            failures.push(f.clone());
        }
    }

    // libFuzzer campaigns (thorough tier, only when the generated part is clean)
    let mut fuzz_stats: Vec<Value> = vec![];
    if tier == Tier::Thorough && failures.is_empty() && inconclusive.is_empty() {
        let handles: Vec<_> = prop
            .fuzz
            .iter()
            .map(|f| {
                let id = prop.id;
                std::thread::spawn(move || run_fuzz(id, f, seed))
            })
            .collect();
        for h in handles {
            match h.join() {
                Ok(Ok((stat, crash))) => {
                    fuzz_stats.push(stat);
                    if let Some(c) = crash {
                        failures.push(c);
                    }
                }
                Ok(Err(e)) => inconclusive.push(e),
                Err(_) => inconclusive.push("fuzz thread panicked".into()),
            }
        }
    }

    // evidence
    let wall = t0.elapsed().as_secs_f64();
    let mut coverage = Map::new();
    coverage.insert("evaluations".into(), json!(evals));
    coverage.insert("distinct_nontrivial".into(), json!(hashes.len()));
    coverage.insert("rule".into(), json!(prop.rule));
    coverage.insert("samples".into(), json!(samples));
    coverage.insert("histogram".into(), json!(hist));
    coverage.insert("excluded".into(), json!(excluded));
    coverage.insert("known_finding_hits".into(), json!(known_hits));
    coverage.insert("shards".into(), json!(of));
    if !fuzz_stats.is_empty() {
        let execs: u64 = fuzz_stats.iter().map(|f| f["execs"].as_u64().unwrap_or(0)).sum();
        coverage.insert("fuzz".into(), json!(fuzz_stats));
        coverage.insert("fuzz_executions".into(), json!(execs));
    }
    for (k, v) in &extra {
        coverage.insert(k.clone(), v.clone());
    }
    let evidence = json!({
        "property_id": prop.id,
        "tier": tier.name(),
        "seed": seed,
        "level": "exploration",
        "coverage": Value::Object(coverage),
        "assumptions": prop.assumptions,
        "wall_s": wall,
        "violations": failures.len(),
        "inconclusive": inconclusive,
    });
    let ev_dir = format!("{}/evidence", VERIF);
    let _ = std::fs::create_dir_all(&ev_dir);
    std::fs::write(
        format!("{}/{}.json", ev_dir, prop.id),
        serde_json::to_string_pretty(&evidence).unwrap() + "\n",
    )
    .expect("write evidence");

    println!(
        "{} tier={} seed={} evaluations={} distinct_nontrivial={} shards={} wall={:.1}s",
        prop.id,
        tier.name(),
        seed,
        evals,
        hashes.len(),
        of,
        wall
    );
    for k in &known {
        if known_hits.iter().any(|(sig, n)| *n > 0 && k.matches(sig)) {
            println!("KNOWN-FINDING: property={} {} [sig={}]", prop.id, k.what, k.sig);
        }
    }
    let _ = std::fs::remove_dir_all(&out_dir);
    if !failures.is_empty() {
        let vdir = format!("{}/out/violations", VERIF);
        let _ = std::fs::create_dir_all(&vdir);
        let mut seen = HashSet::new();
        for f in &failures {
            let sig = f["sig"].as_str().unwrap_or("?").to_string();
            if !seen.insert(sig.clone()) {
                continue;
            }
            let body = json!({"property": prop.id, "sig": sig, "detail": f["detail"], "case": f["case"], "choices": f["choices"], "seed": seed, "tier": tier.name()});
            let text = serde_json::to_string_pretty(&body).unwrap();
            let path = format!("{}/{}-{:016x}.json", vdir, prop.id, fnv(&text));
            let _ = std::fs::write(&path, text + "\n");
            println!("  signature: {}", sig);
            println!("  detail: {}", f["detail"].as_str().unwrap_or(""));
            println!("  case: {}", serde_json::to_string(&f["case"]).unwrap_or_default());
            println!("VIOLATION property={} replay={}", prop.id, path);
        }
        return 1;
    }
    if !inconclusive.is_empty() {
        for m in &inconclusive {
            println!("INCONCLUSIVE: {}", m);
        }
        return 2;
    }
    0
}

pub fn replay_main(prop: &Prop, path: &str, exe: PathBuf) -> i32 {
    install_panic_hook();
    (prop.setup)();
    let text = match std::fs::read_to_string(path) {
        Ok(t) => t,
        Err(e) => {
            println!("cannot read {}: {}", path, e);
            return 2;
        }
    };
    let v: Value = match serde_json::from_str(&text) {
        Ok(v) => v,
        Err(e) => {
            println!("cannot parse {}: {}", path, e);
            return 2;
        }
    };
    if v["case"]["profile"].as_str() == Some("dev") && PROFILE != "dev" {
        let debug_exe = format!("{}/out/target/debug/vh", VERIF);
        let st = Command::new(&debug_exe).args(["replay", prop.id, path]).status();
        return st.ok().and_then(|s| s.code()).unwrap_or(2);
    }
    let out_dir = PathBuf::from(format!("{}/out/run/{}-replay-{}", VERIF, prop.id, std::process::id()));
    let _ = std::fs::create_dir_all(&out_dir);
    let env = Env {
        id: prop.id,
        tier: Tier::Quick,
        seed: 0,
        shard: 0,
        of: 1,
        exe,
        known: load_known(prop.id),
        strict: true,
        profile: PROFILE,
        out_dir: out_dir.clone(),
    };
    let mut st = Stats::new();
    let r = replay_value(prop, &env, &mut st, &v);
    let _ = std::fs::remove_dir_all(&out_dir);
    match r {
        Ok(()) => {
            println!("{} replay {}: property held", prop.id, path);
            0
        }
        Err(f) => {
            println!("  signature: {}", f.sig);
            println!("  detail: {}", f.detail);
            println!("  case: {}", serde_json::to_string(&f.case).unwrap_or_default());
            if env.is_known(&f.sig) {
                println!("KNOWN-FINDING: property={} [sig={}] (replay {})", prop.id, f.sig, path);
                0
            } else {
                println!("VIOLATION property={} replay={}", prop.id, path);
                1
            }
        }
    }
}

pub fn noop_setup() {}
pub fn noop_fixed(_: &Env, _: &mut Stats) -> CaseResult {
    Ok(())
}
pub fn noop_case(_: &mut Src, _: &mut Stats, _: &Env) -> CaseResult {
    Ok(())
}


/// one libFuzzer campaign with a fixed number of runs on a fresh copy of the seed corpus
fn run_fuzz(id: &'static str, f: &Fuzz, seed: u64) -> Result<(Value, Option<Value>), String> {
    let name = if f.choice { format!("{}-{}", f.target, id) } else { f.target.to_string() };
    let work = PathBuf::from(format!("{}/out/fuzz/{}-{}", VERIF, name, std::process::id()));
    let _ = std::fs::remove_dir_all(&work);
    let corpus = work.join("corpus");
    let artifacts = work.join("artifacts");
    std::fs::create_dir_all(&corpus).map_err(|e| e.to_string())?;
    std::fs::create_dir_all(&artifacts).map_err(|e| e.to_string())?;
    if !f.choice {
        if let Ok(rd) = std::fs::read_dir(format!("{}/corpus/text", VERIF)) {
            for e in rd.flatten() {
                let _ = std::fs::copy(e.path(), corpus.join(e.file_name()));
            }
        }
    }
    let t0 = Instant::now();
    let mut cmd = Command::new("cargo");
    cmd.current_dir(format!("{}/harness", VERIF))
        .args(["+nightly", "fuzz", "run", "--target-dir", &format!("{}/out/fuzz-target", VERIF), f.target, corpus.to_str().unwrap(), "--"])
        .arg(format!("-runs={}", f.runs))
        .arg(format!("-seed={}", (seed % 4_000_000_000).max(1)))
        .arg(format!("-max_len={}", f.max_len))
        .args(["-len_control=0", "-timeout=25", "-rss_limit_mb=6000", "-print_final_stats=1"])
        .arg(format!("-artifact_prefix={}/", artifacts.display()))
        .env("VH_FUZZ_PROP", id)
        // AddressSanitizer keeps every distinct allocation stack in a depot that is never
        // trimmed: with a recursive parser that is tens of kilobytes per run; two frames suffice
        .env("ASAN_OPTIONS", "malloc_context_size=2:quarantine_size_mb=64")
        .stdin(Stdio::null())
        .stdout(Stdio::piped())
        .stderr(Stdio::piped());
    if !f.choice {
        cmd.arg(format!("-dict={}/corpus/expr.dict", VERIF));
    }
    let out = cmd.output().map_err(|e| format!("cannot start cargo fuzz: {}", e))?;
    let log = String::from_utf8_lossy(&out.stderr).to_string();
    let grab = |key: &str| -> u64 { log.lines().rev().find(|l| l.contains(key)).and_then(|l| l.split_whitespace().last().and_then(|x| x.parse().ok())).unwrap_or(0) };
    let cov = log.lines().rev().find(|l| l.contains(" cov: ")).and_then(|l| l.split(" cov: ").nth(1)).and_then(|r| r.split_whitespace().next()).and_then(|x| x.parse::<u64>().ok()).unwrap_or(0);
    let corp = std::fs::read_dir(&corpus).map(|d| d.count()).unwrap_or(0);
    let execs = grab("stat::number_of_executed_units");
    let stat = json!({"target": name, "execs": execs, "coverage_edges": cov, "corpus_files": corp, "runs_requested": f.runs, "wall_s": t0.elapsed().as_secs_f64()});
    // the whole process outgrew the RSS limit: cumulative, not attributable to the last input
    if log.contains("ERROR: libFuzzer: out-of-memory (used:") {
        let _ = std::fs::remove_dir_all(&work);
        return Err(format!("fuzz target {} exceeded the process-wide RSS limit after {} runs (cumulative memory, no single input to blame)", name, execs));
    }
    let mut crash = None;
    let arts: Vec<PathBuf> = std::fs::read_dir(&artifacts).map(|d| d.flatten().map(|e| e.path()).collect()).unwrap_or_default();
    if let Some(a) = arts.first() {
        let bytes = std::fs::read(a).unwrap_or_default();
        let why = log.lines().find(|l| l.contains("VIOLATION") || l.contains("panicked at") || l.contains("ERROR: ")).unwrap_or("crash").to_string();
        let (case, choices) = if f.choice {
            (Value::Null, json!(bytes.chunks_exact(4).map(|c| u32::from_le_bytes([c[0], c[1], c[2], c[3]])).collect::<Vec<u32>>()))
        } else {
            (json!({"input": String::from_utf8_lossy(&bytes)}), json!([]))
        };
        crash = Some(json!({"sig": format!("fuzz-crash:{}", name), "detail": format!("libFuzzer target {} crashed: {}", name, why), "case": case, "choices": choices}));
    } else if !out.status.success() && execs == 0 {
        let tail: String = log.lines().rev().take(8).collect::<Vec<_>>().join(" | ");
        return Err(format!("fuzz target {} did not run: {}", name, tail));
    }
    let _ = std::fs::remove_dir_all(&work);
    Ok((stat, crash))
}
