use crate::runner::Prop;
pub mod c17;

pub fn all() -> Vec<&'static Prop> {
    vec![&c17::PROP]
}

pub fn worker_main(kind: &str, _args: &[String]) -> i32 {
    eprintln!("unknown worker kind {}", kind);
    2
}
