use crate::runner::Prop;
pub mod c02;
pub mod c09;
pub mod c11;
pub mod c12;
pub mod c17;

pub fn all() -> Vec<&'static Prop> {
    vec![&c02::PROP, &c11::PROP, &c12::PROP, &c09::PROP, &c17::PROP]
}

pub fn worker_main(kind: &str, _args: &[String]) -> i32 {
    eprintln!("unknown worker kind {}", kind);
    2
}
