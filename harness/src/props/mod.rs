use crate::runner::Prop;
use expression_engine::{register_infix_op, register_postfix_op, register_prefix_op, InfixOpAssociativity, InfixOpType, Value};
use serde_json::Value as J;
use std::sync::Arc;
pub mod c01;
pub mod c02;
pub mod c03;
pub mod c04;
pub mod sem;
pub mod c05;
pub mod c06;
pub mod c07;
pub mod obs;
pub mod c08;
pub mod c09;
pub mod c10;
pub mod c11;
pub mod c12;
pub mod c13;
pub mod c14;
pub mod c15;
pub mod c16;
pub mod c17;
pub mod c18;

pub fn all() -> Vec<&'static Prop> {
    vec![&c01::PROP, &c02::PROP, &c03::PROP, &c04::PROP, &c05::PROP, &c06::PROP, &c07::PROP, &c08::PROP, &c09::PROP, &c10::PROP, &c11::PROP, &c12::PROP, &c13::PROP, &c14::PROP, &c15::PROP, &c16::PROP, &c17::PROP, &c18::PROP]
}

pub fn worker_main(kind: &str, _args: &[String]) -> i32 {
    match kind {
        "c01" => c01::worker(),
        "c01r" => c01::worker_registered(),
        "c05" => c05::worker(),
        "c08" => c08::worker(),
        "c10" => c10::worker(),
        "c11" => c11::worker(),
        "c11r" => c11::worker_registered(),
        "c13" => c13::worker(),
        "c14" => c14::worker(),
        "c14s" => c14::worker_shared(),
        "c16" => c16::worker(),
        "c18" => c18::worker(),
        _ => {
            eprintln!("unknown worker kind {}", kind);
            2
        }
    }
}

/// registers an operator described as {"kind","name","prec","right"}; the handler returns
/// List[id, operands...] so that a result reveals which handler ran on what
pub fn register_op(op: &J, id: i64) {
    let name = op["name"].as_str().unwrap_or("");
    match op["kind"].as_str().unwrap_or("") {
        "infix" => register_infix_op(
            name,
            op["prec"].as_i64().unwrap_or(100) as i32,
            if op["setter"].as_bool().unwrap_or(false) { InfixOpType::SETTER } else { InfixOpType::CALC },
            if op["right"].as_bool().unwrap_or(false) { InfixOpAssociativity::RIGHT } else { InfixOpAssociativity::LEFT },
            Arc::new(move |a, b| Ok(Value::List(vec![Value::from(id), a, b]))),
        ),
        "prefix" => register_prefix_op(name, Arc::new(move |a| Ok(Value::List(vec![Value::from(id), a])))),
        "postfix" => register_postfix_op(name, Arc::new(move |a| Ok(Value::List(vec![Value::from(id), a])))),
        _ => {}
    }
}
