//! C10 — tokens tile the input and carry the exact source text; documented classification.
use crate::bigdec::BigDec;
use crate::gen_soup::{gen_soup, CLASSES, MULTIBYTE, NAME_START, OTHER_FIRST, WS};
use crate::runner::*;
use crate::src::Src;
use crate::syntax::{is_ws, lex, OpTable, Tok, TK};
use expression_engine::verif_hooks;
use serde_json::{json, Value as J};
use std::time::Duration;

pub static PROP: Prop = Prop {
    id: "C10",
    rule: "cases: (a) token soup: 0-40 fragments from 14 character/token classes (operator characters, operator spellings, delimiters, digit runs with . e E + -, quotes balanced and unbalanced, ; , whitespace, names, keywords and near-keywords, 2/3/4-byte scalars incl. U+00A0/U+2003, other first characters, odd whitespace), glued without separator 3/4 of the time; (b) structured token lists (every registered operator, delimiters, numbers, strings with arbitrary payload, names with every allowed first/body character, booleans and near-booleans, word operators and near-words, names before `(`) joined by non-empty whitespace: the stream must equal the list by construction; (c) the same lists with arbitrary (also empty) separators; (d) in fresh child processes: operator sets extended by generated prefix-closed symbolic chains (tail characters from +-*/^%&!=?:><|~@#$.) and word operators (identifiers and spellings that are none, such as is-not, ~=, @@, не, and multi-byte words longer than every built-in operator: содержит, größer_als), two thirds of them with a tokenize -> register -> tokenize history, then (b)/(c) over the extended table. Oracle on every input: span invariants (in bounds, char boundaries, increasing, gaps whitespace-only, payload == covered slice; string = slice minus equal quotes; number value == slice), and equality with the reference tokenizer (maximal munch over operator prefix chains, whole-word rule, function look-ahead). Non-trivial: >= 3 tokens and (a multi-byte scalar inside a token, or two tokens with nothing between them, or an operator that is a proper prefix of another registered operator); distinct by (token kind sequence, separator-emptiness pattern).",
    assumptions: &[
        "the tokenizer is reached through the cfg-guarded hook verif_hooks::tokenize, which drives the private Tokenizer to EOF",
        "numbers with more than 28 digits are compared only up to that token (rounding there is not pinned by the statement)",
        "symbolic operator sets are prefix-closed (the scanner extends one character at a time while the text is an operator; other sets are undocumented)",
    ],
    budget,
    setup: noop_setup,
    case,
    fixed,
    replay: Some(replay),
    breadcrumb: false,
    fuzz: &[Fuzz { target: "tiling", choice: false, runs: 1500000, max_len: 400 }],
};

fn budget(t: Tier) -> Budget {
    Budget {
        cases: t.pick(4_000_000, 50_000_000),
        max_len: 400,
        shards: 16,
        dual_profile: false,
    }
}

#[derive(Clone, Debug)]
pub struct HTok {
    pub kind: String,
    pub text: String,
    pub start: usize,
    pub end: usize,
}

pub fn hook_tokens(input: &str) -> Result<(Vec<HTok>, Option<String>), String> {
    guard(|| {
        let (toks, err) = verif_hooks::tokenize(input);
        (
            toks.into_iter()
                .map(|t| HTok {
                    kind: t.kind.to_string(),
                    text: t.text,
                    start: t.start,
                    end: t.end,
                })
                .collect(),
            err,
        )
    })
}

fn fail(sig: &str, detail: String, input: &str, ops: &J) -> Failure {
    Failure::new(sig, detail, json!({"input": input, "extra_ops": ops}))
}

/// invariants + agreement with the reference tokenizer
pub fn check_stream(input: &str, toks: &[HTok], err: &Option<String>, tab: &OpTable, ops: &J) -> CaseResult {
    let mut prev_end = 0usize;
    for (i, t) in toks.iter().enumerate() {
        if !(t.start < t.end && t.end <= input.len()) {
            return Err(fail("tiling:bounds", format!("token {} {:?} has span {}..{} (input length {})", i, t.text, t.start, t.end, input.len()), input, ops));
        }
        if !input.is_char_boundary(t.start) || !input.is_char_boundary(t.end) {
            return Err(fail("tiling:char-boundary", format!("token {} span {}..{} is not on character boundaries", i, t.start, t.end), input, ops));
        }
        if t.start < prev_end {
            return Err(fail("tiling:overlap", format!("token {} starts at {} before the previous one ended at {}", i, t.start, prev_end), input, ops));
        }
        if !input[prev_end..t.start].chars().all(is_ws) {
            return Err(fail("tiling:gap", format!("non-whitespace {:?} between tokens {} and {}", &input[prev_end..t.start], i as i64 - 1, i), input, ops));
        }
        let slice = &input[t.start..t.end];
        let ok = match t.kind.as_str() {
            "string" => {
                let mut cs = slice.chars();
                let (f, l) = (cs.next(), cs.next_back());
                slice.len() >= 2 && f == l && (f == Some('"') || f == Some('\'')) && t.text == slice[1..slice.len() - 1]
            }
            "number" => match (BigDec::from_literal(slice.trim_end_matches('.')), BigDec::from_literal(&t.text)) {
                (Some(a), Some(b)) => {
                    let digits = slice.bytes().filter(|b| b.is_ascii_digit()).count();
                    digits > 28 || (a.eq_value(&b) && a.scale == b.scale)
                }
                _ => false,
            },
            "bool" => (t.text == "true" && (slice == "true" || slice == "True")) || (t.text == "false" && (slice == "false" || slice == "False")),
            _ => t.text == slice,
        };
        if !ok {
            return Err(fail(
                &format!("tiling:text:{}", t.kind),
                format!("token {} ({}) carries {:?} but covers the source slice {:?}", i, t.kind, t.text, slice),
                input,
                ops,
            ));
        }
        prev_end = t.end;
    }
    if err.is_none() && !input[prev_end..].chars().all(is_ws) {
        return Err(fail("tiling:tail", format!("input ends with untokenized text {:?}", &input[prev_end..]), input, ops));
    }
    // classification against the reference tokenizer
    let (rt, rerr) = lex(input, tab);
    for i in 0..rt.len().max(toks.len()) {
        let r = rt.get(i);
        let e = toks.get(i);
        if let Some(r) = r {
            if r.kind == TK::Num && r.text.bytes().filter(|b| b.is_ascii_digit()).count() > 28 {
                return Ok(()); // rounding territory: not pinned
            }
        }
        match (r, e) {
            (Some(r), Some(e)) => {
                if r.start != e.start || r.end != e.end || r.kind.name() != e.kind {
                    let sig = if r.kind == TK::Op && e.kind == "operator" {
                        format!("munch:{}", r.text)
                    } else {
                        format!("class:{}:{}", r.kind.name(), e.kind)
                    };
                    return Err(fail(
                        &sig,
                        format!(
                            "token {}: the documented rules give {} {:?} at {}..{}, the tokenizer gives {} {:?} at {}..{}",
                            i,
                            r.kind.name(),
                            r.text,
                            r.start,
                            r.end,
                            e.kind,
                            &input[e.start..e.end],
                            e.start,
                            e.end
                        ),
                        input,
                        ops,
                    ));
                }
            }
            (Some(r), None) => {
                if err.is_some() {
                    // the engine stopped with an error where the rules see a token
                    // a well-shaped literal may only be refused when it does not fit the 96-bit / 28-place range
                    if r.kind == TK::Num && BigDec::from_literal(r.text.trim_end_matches('.')).map(|d| !d.fits()).unwrap_or(true) {
                        return Ok(());
                    }
                    return Err(fail(
                        &format!("class:{}:error", r.kind.name()),
                        format!("tokenizer error {:?} where the documented rules give {} {:?}", err, r.kind.name(), r.text),
                        input,
                        ops,
                    ));
                }
                return Err(fail(&format!("class:{}:missing", r.kind.name()), format!("token {} {:?} is missing from the stream", i, r.text), input, ops));
            }
            (None, Some(e)) => {
                if rerr.is_some() {
                    return Err(fail("class:error:token", format!("the documented rules reject the input here ({:?}) but the tokenizer produced {} {:?}", rerr, e.kind, e.text), input, ops));
                }
                return Err(fail(&format!("class:none:{}", e.kind), format!("extra token {} {:?}", e.kind, e.text), input, ops));
            }
            (None, None) => {}
        }
    }
    match (&rerr, err) {
        (Some(r), None) => Err(fail("class:error:accepted", format!("the documented rules reject the input ({}) but the tokenizer reached the end", r), input, ops)),
        (None, Some(e)) => Err(fail("class:unexpected-error", format!("tokenizer error {:?} on an input the documented rules accept", e), input, ops)),
        _ => Ok(()),
    }
}

// ----- structured generator -----

fn gen_name(src: &mut Src) -> String {
    let first: String = match src.pick(4) {
        0 => src.choose(&OTHER_FIRST).to_string(),
        1 => src.choose(&MULTIBYTE[..NAME_START]).to_string(),
        _ => src.choose(&["a", "b", "x", "Z", "f", "_", "q", "t", "i", "n"]).to_string(),
    };
    let n = src.pick(5);
    let mut s = first;
    for _ in 0..n {
        s.push_str(*src.choose(&["a", "1", "_", ".", "Z", "9", "e", "r", "u"]));
    }
    s
}

fn gen_string_tok(src: &mut Src) -> String {
    let q = if src.chance(1, 2) { '"' } else { '\'' };
    let other = if q == '"' { "'" } else { "\"" };
    let n = src.pick(6);
    let mut p = String::new();
    for _ in 0..n {
        let frag = match src.pick(8) {
            0 => other,
            1 => *src.choose(&WS),
            2 => *src.choose(&MULTIBYTE),
            3 => "\\",
            4 => *src.choose(&["+", "<<=", "(", "]", ";", ","]),
            5 => "in",
            _ => *src.choose(&["a", "1", "z"]),
        };
        p.push_str(frag);
    }
    format!("{}{}{}", q, p, q)
}

pub fn gen_structured(src: &mut Src, tab: &OpTable, all_ops: &[String]) -> Vec<(TK, String)> {
    let n = src.pick(14);
    let mut out: Vec<(TK, String)> = vec![];
    for _ in 0..n {
        let item = match src.weighted(&[4, 3, 2, 2, 3, 2, 2, 1, 1]) {
            0 => (TK::Op, src.choose(all_ops).clone()),
            1 => (TK::Delim, src.choose(&["(", ")", "[", "]", "{", "}"]).to_string()),
            2 => (
                TK::Num,
                src.choose(&[
                    "1", "0", "42", "1.5", "007", "0.10", "3.", "1234567890123456789012345678", "9.000", "9223372036854775807", "9223372036854775808", "9999999999999999999", "18446744073709551616",
                    "4294967296", "0.0000000000000000000000000001",
                ])
                .to_string(),
            ),
            3 => (TK::Str, gen_string_tok(src)),
            4 => {
                let nm = gen_name(src);
                // a generated name that happens to spell an operator or a keyword is that thing
                if tab.is_op(&nm) {
                    (TK::Op, nm)
                } else if ["true", "True", "false", "False"].contains(&nm.as_str()) {
                    (TK::Bool, nm)
                } else {
                    (TK::Ref, nm)
                }
            }
            5 => (TK::Bool, src.choose(&["true", "True", "false", "False"]).to_string()),
            6 => {
                let w = *src.choose(&["TRUE", "trueish", "true.x", "inside", "notx", "in1", "ANDY", "ORx", "beginwith", "endWith1", "nota", "In"]);
                if tab.is_op(w) {
                    (TK::Op, w.to_string())
                } else {
                    (TK::Ref, w.to_string())
                }
            }
            7 => (TK::Comma, ",".to_string()),
            _ => (TK::Semi, ";".to_string()),
        };
        out.push(item);
    }
    // a name before `(` is a function name
    for i in 0..out.len() {
        if out[i].0 == TK::Ref && out.get(i + 1).map(|t| t.1 == "(").unwrap_or(false) {
            out[i].0 = TK::Func;
        }
    }
    out
}

fn gen_ws(src: &mut Src, min: usize) -> String {
    let n = min + src.pick(4 - min);
    (0..n).map(|_| *src.choose(&WS)).collect()
}

fn all_ops(tab: &OpTable) -> Vec<String> {
    let mut ops: Vec<String> = tab.infix.keys().cloned().collect();
    ops.extend(tab.prefix.iter().cloned());
    ops.extend(tab.postfix.iter().cloned());
    ops.push("?".into());
    ops.push(":".into());
    ops.sort();
    ops.dedup();
    ops
}

fn note_nontrivial(input: &str, toks: &[Tok], tab: &OpTable, st: &mut Stats) {
    if toks.len() < 3 {
        return;
    }
    let multibyte = toks.iter().any(|t| !t.text.is_ascii());
    let glued = toks.windows(2).any(|w| w[0].end == w[1].start);
    let ops = all_ops(tab);
    let prefix_op = toks.iter().any(|t| t.kind == TK::Op && ops.iter().any(|o| o.len() > t.text.len() && o.starts_with(&t.text)));
    if multibyte || glued || prefix_op {
        let mut key = String::new();
        for (i, t) in toks.iter().enumerate() {
            key.push_str(t.kind.name());
            if i + 1 < toks.len() {
                key.push(if toks[i + 1].start == t.end { '+' } else { ' ' });
            }
        }
        st.nontrivial(&key);
    }
    let _ = input;
}

fn run_inproc(input: &str, tab: &OpTable, expect: Option<&[(TK, String)]>, st: &mut Stats) -> CaseResult {
    let none = json!(null);
    let (toks, err) = match hook_tokens(input) {
        Ok(x) => x,
        Err(p) => return Err(fail(&format!("panic:{}", panic_file(&p)), format!("tokenizing {:?} panicked: {}", input, p), input, &none)),
    };
    if let Some(list) = expect {
        // by construction: with whitespace between all tokens the stream is the list
        let same = err.is_none() && toks.len() == list.len() && toks.iter().zip(list).all(|(t, (k, text))| t.kind == k.name() && &input[t.start..t.end] == text);
        if !same {
            return Err(fail(
                "class:by-construction",
                format!(
                    "generated tokens {:?}\n    tokenizer: {:?} err={:?}",
                    list.iter().map(|(k, t)| format!("{}:{}", k.name(), t)).collect::<Vec<_>>(),
                    toks.iter().map(|t| format!("{}:{}", t.kind, &input[t.start.min(input.len())..t.end.min(input.len())])).collect::<Vec<_>>(),
                    err
                ),
                input,
                &none,
            ));
        }
    }
    let (rt, _) = lex(input, tab);
    note_nontrivial(input, &rt, tab, st);
    st.sample(|| json!({"input": input, "tokens": toks.iter().map(|t| format!("{}@{}..{}", t.kind, t.start, t.end)).collect::<Vec<_>>()}));
    check_stream(input, &toks, &err, tab, &none)
}

// ----- extended operator sets (child process) -----

fn gen_extra_ops(src: &mut Src, tab: &mut OpTable) -> Vec<J> {
    let mut out = vec![];
    let n = 1 + src.pick(5);
    for _ in 0..n {
        let kind = *src.choose(&["infix", "prefix", "postfix"]);
        let name = if src.chance(1, 2) {
            // extend an existing symbolic operator by one special character (prefix-closed)
            let syms: Vec<String> = all_ops(tab).into_iter().filter(|o| o.chars().next().map(|c| crate::syntax::SPECIAL.contains(c)).unwrap_or(false)).collect();
            let base = src.choose(&syms).clone();
            // the tail may use any character: only the first one decides that the scan is symbolic
            const TAIL: &str = "+-*/^%&!=?:><|~@#$.";
            format!("{}{}", base, TAIL.chars().nth(src.pick(TAIL.len())).unwrap())
        } else {
            let w = *src.choose(&["xor", "mod", "contains", "is", "isnt", "In", "inside", "nand", "x_1", "TRUE", "is-not", "~=", "@@", "не", "enthält", "divisible-by", "包含", "содержит", "größer_als", "не-входит-в", "是否包含于"]);
            w.to_string()
        };
        if name == "?" || name == ":" {
            continue;
        }
        let prec = *src.choose(&[15i64, 45, 60, 105, 110, 115, 130, 200, 250]);
        let right = src.chance(1, 3);
        match kind {
            "infix" => {
                tab.infix.insert(name.clone(), (prec, right));
            }
            "prefix" => {
                tab.prefix.insert(name.clone());
            }
            _ => {
                tab.postfix.insert(name.clone());
            }
        }
        out.push(json!({"kind": kind, "name": name, "prec": prec, "right": right}));
    }
    out
}

fn run_config(ops: &[J], pre_texts: &[String], texts: &[String], tab: &OpTable, env: &Env, st: &mut Stats) -> CaseResult {
    let opsj = json!(ops);
    let scenario = json!({"ops": ops, "pre_texts": pre_texts, "texts": texts});
    let out = run_child(&env.exe, &["worker", "c10"], &scenario.to_string(), Duration::from_secs(20));
    st.add_extra("child_processes", 1);
    let doc: J = match (&out.end, serde_json::from_str::<J>(&out.stdout)) {
        (ChildEnd::Exit(0), Ok(d)) => d,
        _ => {
            return Err(Failure::new(
                "child:crash",
                format!("tokenizer child ended with {:?}; stderr: {}", out.end, out.stderr),
                json!({"extra_ops": ops, "texts": texts}),
            ))
        }
    };
    let builtin = OpTable::builtin();
    let none = json!(null);
    for (phase, list) in [("pre_results", pre_texts), ("results", texts)] {
      let (tab, opsj) = if phase == "pre_results" { (&builtin, &none) } else { (tab, &opsj) };
      for (i, text) in list.iter().enumerate() {
        let r = &doc[phase][i];
        if let Some(p) = r["panic"].as_str() {
            return Err(fail(&format!("panic:{}", panic_file(p)), format!("tokenizing {:?} panicked: {}", text, p), text, opsj));
        }
        let toks: Vec<HTok> = r["toks"]
            .as_array()
            .map(|a| {
                a.iter()
                    .map(|t| HTok {
                        kind: t[0].as_str().unwrap_or("").to_string(),
                        text: t[1].as_str().unwrap_or("").to_string(),
                        start: t[2].as_u64().unwrap_or(0) as usize,
                        end: t[3].as_u64().unwrap_or(0) as usize,
                    })
                    .collect()
            })
            .unwrap_or_default();
        let err = r["err"].as_str().map(|s| s.to_string());
        st.eval();
        st.hist("extended-table-text");
        let (rt, _) = lex(text, tab);
        note_nontrivial(text, &rt, tab, st);
        check_stream(text, &toks, &err, tab, opsj).map_err(|mut f| {
            if phase == "results" && !pre_texts.is_empty() {
                f.case["pre_texts"] = json!(pre_texts);
            }
            f
        })?;
      }
    }
    Ok(())
}

pub fn worker() -> i32 {
    use std::io::Read;
    install_panic_hook();
    let mut s = String::new();
    std::io::stdin().read_to_string(&mut s).ok();
    let doc: J = serde_json::from_str(&s).unwrap_or(json!({}));
    let run = |texts: &J| -> Vec<J> {
        let mut results = vec![];
        for t in texts.as_array().cloned().unwrap_or_default() {
            let text = t.as_str().unwrap_or("");
            match hook_tokens(text) {
                Ok((toks, err)) => results.push(json!({
                    "toks": toks.iter().map(|t| json!([t.kind, t.text, t.start, t.end])).collect::<Vec<_>>(),
                    "err": err,
                })),
                Err(p) => results.push(json!({"panic": p})),
            }
        }
        results
    };
    // the same spellings are tokenized before and after they become operators
    let pre = run(&doc["pre_texts"]);
    for op in doc["ops"].as_array().cloned().unwrap_or_default() {
        crate::props::register_op(&op, 0);
    }
    let results = run(&doc["texts"]);
    println!("{}", json!({"pre_results": pre, "results": results}));
    0
}

fn case(src: &mut Src, st: &mut Stats, env: &Env) -> CaseResult {
    let tab = OpTable::builtin();
    match src.weighted(&[40, 30, 30, 1]) {
        0 => {
            st.eval();
            let soup = gen_soup(src, &tab, 40);
            for (a, b) in &soup.adjacencies {
                st.hist(&format!("adj:{}>{}", CLASSES[*a], CLASSES[*b]));
            }
            run_inproc(&soup.text, &tab, None, st)
        }
        1 => {
            st.eval();
            st.hist("structured:separated");
            let ops = all_ops(&tab);
            let list = gen_structured(src, &tab, &ops);
            let mut text = gen_ws(src, 0);
            for (i, (_, t)) in list.iter().enumerate() {
                if i > 0 {
                    text.push_str(&gen_ws(src, 1));
                }
                text.push_str(t);
            }
            text.push_str(&gen_ws(src, 0));
            run_inproc(&text, &tab, Some(&list), st)
        }
        2 => {
            st.eval();
            st.hist("structured:arbitrary-separators");
            let ops = all_ops(&tab);
            let list = gen_structured(src, &tab, &ops);
            let mut text = String::new();
            for (i, (_, t)) in list.iter().enumerate() {
                if i > 0 {
                    text.push_str(&gen_ws(src, 0));
                }
                text.push_str(t);
            }
            run_inproc(&text, &tab, None, st)
        }
        _ => {
            let mut tab2 = tab.clone();
            let with_pre = src.chance(2, 3);
            let ops = gen_extra_ops(src, &mut tab2);
            let names = all_ops(&tab2);
            let mut texts = vec![];
            for _ in 0..12 {
                let list = gen_structured(src, &tab2, &names);
                let sep_min = src.pick(2);
                let mut text = String::new();
                for (i, (_, t)) in list.iter().enumerate() {
                    if i > 0 {
                        text.push_str(&gen_ws(src, sep_min));
                    }
                    text.push_str(t);
                }
                texts.push(text);
            }
            // operator soup over the extended table
            for _ in 0..4 {
                texts.push(gen_soup(src, &tab2, 20).text);
            }
            // half of the configurations first tokenize some of these texts under the
            // built-in table (the spellings are not operators yet), then register
            let pre: Vec<String> = if with_pre { texts.iter().take(6).cloned().collect() } else { vec![] };
            run_config(&ops, &pre, &texts, &tab2, env, st)
        }
    }
}

fn fixed(env: &Env, st: &mut Stats) -> CaseResult {
    if env.shard != 0 {
        return Ok(());
    }
    let tab = OpTable::builtin();
    for t in [
        "", " ", "a", "+é", "<˱", "1+é", "a=ü", "'é'", "\"日本\" in x", "f (1)", "f\n(1)", "f\u{a0}(1)", "x<<=1", "a>=b", "a>==b", "a<<<b", "+++", "+ ++", "!==", "1e5", "1.2.3", "'abc",
        "in", "inside", "in,", "x in[1]", "not(a)", "true", "True.x", "trueish", "a.b.c(1)", "@", "@(1)", ".5", "_", "1a", "1 a", "a1", "007", "a;b,c", "é", "日(", "\u{2003}", "a\u{2003}b",
        " \t\r\n", "\u{b}", "a\u{c}b", "x endWith'y'", "beginWithx", "a beginWith(b)", "12345678901234567890123456789012345", "9.", "9..", "--", "---", "a---b", "?:", "? :", "a?b:c",
    ] {
        st.eval();
        run_inproc(t, &tab, None, st)?;
    }
    Ok(())
}

fn replay(case: &J, st: &mut Stats, env: &Env) -> CaseResult {
    let input = case["input"].as_str().unwrap_or("");
    let tab = OpTable::builtin();
    match case["extra_ops"].as_array() {
        Some(ops) if !ops.is_empty() => {
            let mut tab2 = tab.clone();
            for op in ops {
                let name = op["name"].as_str().unwrap_or("").to_string();
                match op["kind"].as_str().unwrap_or("") {
                    "infix" => {
                        tab2.infix.insert(name, (op["prec"].as_i64().unwrap_or(100), op["right"].as_bool().unwrap_or(false)));
                    }
                    "prefix" => {
                        tab2.prefix.insert(name);
                    }
                    _ => {
                        tab2.postfix.insert(name);
                    }
                }
            }
            let pre: Vec<String> = case["pre_texts"].as_array().map(|a| a.iter().filter_map(|x| x.as_str().map(|s| s.to_string())).collect()).unwrap_or_default();
            run_config(ops, &pre, &[input.to_string()], &tab2, env, st)
        }
        _ => {
            st.eval();
            run_inproc(input, &tab, None, st)
        }
    }
}
