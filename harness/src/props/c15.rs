//! C15 — a failing or panicking handler is contained.
use crate::gen_sem::SemCtx;
use crate::handlers::{self, Mode, PANIC_PAYLOAD};
use crate::model::{Ev, R, V};
use crate::props::obs::*;
use crate::props::sem::*;
use crate::runner::*;
use crate::src::Src;
use expression_engine::verif_hooks::locks_free;
use expression_engine::{execute, register_function, Context, Value};
use serde_json::{json, Value as J};
use std::sync::Arc;

pub static PROP: Prop = Prop {
    id: "C15",
    rule: "cases: programs from the C07 generator (observable handlers of all kinds: context function by call and by bare name, some shadowing global functions; global function; prefix, infix, postfix and SETTER operators) evaluated on a generated context (one program in eight wrapped in 33-60 nested list literals); for EVERY k from 0 to the number of handler invocations of the fault-free run, and for both modes (handler returns Err / handler panics), the k-th invocation is made to fail. Oracle: Err at k => result Err, exactly k+1 invocations logged, context equal to the model context at that point; panic at k => catch_unwind in the caller catches exactly the injected payload (an ordinary unwind), k+1 invocations logged. After each run a follow-up battery must behave as if the evaluation had just stopped there: the context is readable and equal to the model, a second evaluation on the same context works, evaluations with fresh contexts on the same thread and on a new thread give the reference results, register_function + call works, no registry lock is reported held and the context mutex is neither held nor poisoned. Non-trivial: k is neither the first nor the last invocation, or the failing handler is reached through a bare name or is an operator, or the program assigned a variable before the fault; distinct by (failing handler id, mode, position class, program skeleton).",
    assumptions: &[
        "panics are injected in-process under catch_unwind with a silent panic hook; an abort would kill the shard and is reported through the breadcrumb",
        "cases whose fault-free reference outcome is unspecified are excluded and counted",
    ],
    budget,
    setup: crate::handlers::setup,
    case,
    fixed,
    replay: Some(replay),
    breadcrumb: true,
    fuzz: &[],
};

fn budget(t: Tier) -> Budget {
    Budget {
        cases: t.pick(150_000, 2_000_000),
        max_len: 240,
        shards: 16,
        dual_profile: false,
    }
}

fn num(v: &Value) -> String {
    V::from_value(v).key()
}

/// everything that must still work after a contained failure
fn battery(handle: &Context, model: &crate::model::Model, sc: &SemCtx, text: &str, kind: &str) -> Result<(), (String, String)> {
    // 1. the context is readable and equals the model
    context_matches(handle, &model.ctx, &names_in_play(sc)).map_err(|e| {
        if e.contains("panicked") {
            (format!("poison:context:{}", kind), e)
        } else {
            (format!("context-after-failure:{}", kind), e)
        }
    })?;
    // 2. locks: nothing held, nothing poisoned
    let free = locks_free();
    if free.iter().any(|f| !f) {
        return Err((format!("lock-held-or-poisoned:registry:{}", kind), format!("locks_free() = {:?} after the failed evaluation", free)));
    }
    match handle.0.try_lock() {
        Ok(_) => {}
        Err(e) => return Err((format!("poison:context-mutex:{}", kind), format!("context mutex after the failed evaluation: {}", e))),
    }
    // 3. a second evaluation on the same context
    let again = guard(|| execute("[v0 , v1 , 1 + 2]", handlers::share(handle)).map_err(|e| e.to_string()));
    match &again {
        Ok(Ok(Value::List(l))) if l.len() == 3 && num(&l[2]) == "n3" => {}
        other => return Err((format!("same-context-unusable:{}", kind), format!("second evaluation on the same context gave {:?}", other.as_ref().map(|r| r.as_ref().map(num))))),
    }
    // 4. fresh contexts on this thread
    handlers::reset();
    let fresh = guard(|| execute("[1 + 2 , vh_g0(1) , 2 vh_in0 3 , not true]", Context::new()).map_err(|e| e.to_string()));
    match &fresh {
        Ok(Ok(v)) if num(v) == "[n3,n7,n5,bfalse]" => {}
        other => return Err((format!("engine-unusable-same-thread:{}", kind), format!("fresh evaluation gave {:?}", other.as_ref().map(|r| r.as_ref().map(num))))),
    }
    handlers::reset();
    // 5. a new thread
    let t = std::thread::spawn(|| {
        let r = std::panic::catch_unwind(|| execute("[2 * 3 , vh_pre0 1 , min(4 , 2)]", Context::new()).map(|v| V::from_value(&v).key()).map_err(|e| e.to_string()));
        r.unwrap_or_else(|_| Err("panic".into()))
    })
    .join()
    .unwrap_or_else(|_| Err("thread died".into()));
    if t.as_deref() != Ok("[n6,n3,n2]") {
        return Err((format!("engine-unusable-other-thread:{}", kind), format!("evaluation on a new thread gave {:?}", t)));
    }
    // 6. registration still works
    let reg = guard(|| {
        register_function("vh_tmp", Arc::new(|_| Ok(Value::from(41))));
        execute("vh_tmp() + 1", Context::new()).map(|v| num(&v)).map_err(|e| e.to_string())
    });
    if reg != Ok(Ok("n42".to_string())) {
        return Err((format!("registration-unusable:{}", kind), format!("register_function + call gave {:?}", reg)));
    }
    let _ = text;
    Ok(())
}

fn handler_kind(id: u32, tree_text: &str) -> &'static str {
    let _ = tree_text;
    match id {
        0..=9 => "context-function",
        10..=19 => "global-function",
        20..=29 => "prefix-operator",
        30 | 31 => "infix-operator",
        32 => "setter-operator",
        _ => "postfix-operator",
    }
}

pub fn check_fault(tree: &R, sc: &SemCtx, k: usize, mode: Mode, st: &mut Stats) -> CaseResult {
    let text = tree.render_explicit();
    let (ev, m) = run_model(tree, sc, Some(k));
    let mode_name = if mode == Mode::Err { "err" } else { "panic" };
    let case = || obs_case_json(tree, sc, Some(k), mode_name);
    if !matches!(ev, Ev::Fault) {
        // the k-th invocation is not reached (cannot happen when k < fault-free log length)
        st.exclude("fault-not-reached");
        return Ok(());
    }
    let failing_id = m.log.last().map(|x| x.0).unwrap_or(0);
    let kind = handler_kind(failing_id, &text);
    st.hist(&format!("{}:{}", mode_name, kind));
    let out = run_engine(&text, sc, Some((k, mode)));
    match (&out.engine, mode) {
        (Ok(Err(_)), Mode::Err) => {}
        (Err(p), Mode::Panic) if p.contains(PANIC_PAYLOAD) => {}
        (Err(p), _) => {
            return Err(Failure::new(
                format!("foreign-panic:{}:{}", kind, panic_file(p)),
                format!("{}\n    handler #{} at call {} was made to {}; the evaluation panicked with: {}", text, failing_id, k, mode_name, p),
                case(),
            ))
        }
        (Ok(Ok(v)), _) => {
            return Err(Failure::new(
                format!("swallowed:{}:{}", mode_name, kind),
                format!("{}\n    handler #{} at call {} was made to {}, but the evaluation returned {}\n    calls: {}", text, failing_id, k, mode_name, num(v), show_log(&out.log)),
                case(),
            ))
        }
        (Ok(Err(e)), Mode::Panic) => {
            return Err(Failure::new(
                format!("panic-turned-into-error:{}", kind),
                format!("{}\n    the panic of handler #{} did not reach the caller as an unwind; evaluation returned Err({})", text, failing_id, e),
                case(),
            ))
        }
    }
    if !same_log(&m.log, &out.log) {
        let sig = log_signature(&m.log, &out.log, true);
        return Err(Failure::new(
            format!("continues-after-failure:{}:{}", sig, kind),
            format!("{}\n    failing call {} (handler #{}, {})\n    expected calls: {}\n    engine calls  : {}", text, k, failing_id, mode_name, show_log(&m.log), show_log(&out.log)),
            case(),
        ));
    }
    if let Err((sig, why)) = battery(&out.handle, &m, sc, &text, kind) {
        return Err(Failure::new(sig, format!("{}\n    after handler #{} at call {} was made to {}: {}", text, failing_id, k, mode_name, why), case()));
    }
    Ok(())
}

fn check_program(tree: &R, sc: &SemCtx, st: &mut Stats) -> CaseResult {
    let (ev0, m0) = run_model(tree, sc, None);
    if matches!(ev0, Ev::Unspec(_)) {
        st.exclude("reference-outcome-unspecified");
        return Ok(());
    }
    let n = m0.log.len();
    st.hist(&format!("invocations:{}", n.min(12)));
    let mut key = String::new();
    crate::gen_sem::op_key(tree, &mut key);
    let text = tree.render_explicit();
    st.sample(|| json!({"text": text, "context": crate::gen_sem::ctx_json(sc), "handler_invocations": n}));
    let assigns_first = matches!(tree, R::Stmts(v) if v.len() > 1);
    for k in 0..n {
        for mode in [Mode::Err, Mode::Panic] {
            st.eval();
            let id = m0.log[k].0;
            if (k > 0 && k + 1 < n) || id >= 20 || assigns_first {
                st.nontrivial(&format!("{}@{}:{:?}:{}", key, k, mode, id));
            }
            check_fault(tree, sc, k, mode, st)?;
        }
    }
    Ok(())
}

/// the (last statement of the) program inside `n` nested list literals
fn nest(tree: R, n: usize) -> R {
    let wrap = |mut e: R| {
        for _ in 0..n {
            e = R::List(vec![e]);
        }
        e
    };
    match tree {
        R::Stmts(mut v) if !v.is_empty() => {
            let last = v.pop().unwrap();
            v.push(wrap(last));
            R::Stmts(v)
        }
        other => wrap(other),
    }
}

fn case(src: &mut Src, st: &mut Stats, _env: &Env) -> CaseResult {
    let c = obs_cfg();
    // one program in eight is evaluated 33-60 levels deep (containment does not depend on depth)
    let deep = if src.pick(8) == 7 { 33 + src.pick(28) } else { 0 };
    let sc = gen_obs_context(src, &c);
    let mut tree = gen_obs_program(src, &c, &sc);
    if deep > 0 {
        st.hist("deeply-nested-program");
        tree = nest(tree, deep);
    }
    check_program(&tree, &sc, st)
}

fn fixed(env: &Env, st: &mut Stats) -> CaseResult {
    if env.shard != 0 {
        return Ok(());
    }
    // every handler kind at least once, first / middle / last position
    let sc = crate::gen_sem::ctx_from_json(&json!({
        "t0": {"func": 0, "returns": {"num": "1"}},
        "t1": {"func": 1, "returns": {"bool": true}},
        "sum": {"func": 5, "returns": {"num": "2"}},
        "v0": {"var": {"num": "10"}}
    }));
    let tab = sem_table();
    for text in [
        "t0", "t0()", "t0 + t0() + vh_g0(t0)", "[t0 , vh_pre0 t0 , t0 vh_in0 2 , t0 vh_post0]", "v0 = t0 ; v1 = vh_g0(v0) ; v0 vh_set0 t0() ; v0",
        "t1 ? t0 : vh_g0()", "{t0 : t0() , vh_g0() : t0}", "sum(t0 , 2)", "v0 += t0 ; v0 -= sum(1) ; v0", "vh_g0(vh_g0(vh_g0(t0)))", "t1 && t1() || vh_g1()",
    ] {
        let (tree, _, _) = crate::syntax::parse_text(text, &tab).map_err(|e| Failure::new("harness-bug:fixed", format!("{}: {}", text, e), json!({"text": text})))?;
        check_program(&tree, &sc, st)?;
    }
    Ok(())
}

fn replay(case: &J, st: &mut Stats, _env: &Env) -> CaseResult {
    st.eval();
    let (tree, sc) = tree_from_case(case)?;
    match case["fault_at"].as_u64() {
        Some(k) => check_fault(&tree, &sc, k as usize, if case["mode"].as_str() == Some("panic") { Mode::Panic } else { Mode::Err }, st),
        None => check_program(&tree, &sc, st),
    }
}
