//! Shared plumbing of the evaluator properties: run one tree on the engine and on the model.
use crate::eng::{exec_with, Guarded};
use crate::gen_sem::{ctx_from_json, ctx_json, op_key, SemCtx};
use crate::handlers;
use crate::model::{agree, Ev, Model, R};
use crate::runner::*;
use crate::syntax::{parse_text, OpTable};
use expression_engine::Value;
use serde_json::{json, Value as J};

/// built-in table plus the harness's `vh_*` operators (needed to re-read saved cases)
pub fn sem_table() -> OpTable {
    let mut t = OpTable::builtin();
    for (n, _) in handlers::PREFIX_OPS {
        t.prefix.insert(n.to_string());
    }
    for (n, _) in handlers::INFIX_OPS {
        t.infix.insert(n.to_string(), (115, n == "vh_in1"));
    }
    for (n, _) in handlers::POSTFIX_OPS {
        t.postfix.insert(n.to_string());
    }
    for (n, _) in handlers::SETTER_OPS {
        t.infix.insert(n.to_string(), (20, true));
    }
    t
}

pub fn case_json(tree: &R, sc: &SemCtx) -> J {
    json!({"text": tree.render_explicit(), "context": ctx_json(sc), "profile": PROFILE})
}

pub fn tree_from_case(case: &J) -> Result<(R, SemCtx), Failure> {
    let text = case["text"].as_str().unwrap_or("");
    let (r, _, _) = parse_text(text, &sem_table()).map_err(|e| Failure::new("harness-bug:replay", format!("cannot re-read {:?}: {}", text, e), case.clone()))?;
    Ok((r, ctx_from_json(&case["context"])))
}

pub fn root_op(r: &R) -> String {
    match r {
        R::Infix(op, ..) => op.clone(),
        R::NotInfix(op, ..) => format!("not-{}", op),
        R::Prefix(op, _) => format!("prefix{}", op),
        R::Postfix(_, op) => format!("postfix{}", op),
        R::Call(n, _) => format!("{}()", n),
        R::Cond(..) => "?:".into(),
        R::List(_) => "list".into(),
        R::Map(_) => "map".into(),
        R::Stmts(v) => v.last().map(root_op).unwrap_or_else(|| "empty".into()),
        _ => "leaf".into(),
    }
}

pub fn ev_class(ev: &Ev) -> &'static str {
    match ev {
        Ev::Val(_) => "value",
        Ev::Err(_) => "error",
        Ev::Unspec(_) => "unspecified",
        Ev::Fault => "fault",
    }
}

pub struct Run {
    pub text: String,
    pub engine: Guarded<Value>,
    pub model: Ev,
    pub model_state: Model,
}

/// evaluates `tree` with a fresh engine context built from `sc`, and on the model
pub fn run_both(tree: &R, sc: &SemCtx) -> Run {
    let text = tree.render_explicit();
    let mut m = Model {
        ctx: sc.bindings.clone(),
        loggers: handlers::loggers(),
        ..Default::default()
    };
    let ev = m.run(tree);
    handlers::reset();
    let ctx = handlers::context_of(&sc.bindings);
    let engine = exec_with(&text, ctx);
    Run {
        text,
        engine,
        model: ev,
        model_state: m,
    }
}

pub fn check_value(tree: &R, sc: &SemCtx, st: &mut Stats, want_nontrivial: impl Fn(&R, &Ev) -> bool) -> CaseResult {
    let run = run_both(tree, sc);
    let mut key = String::new();
    op_key(tree, &mut key);
    st.hist(&format!("model:{}", ev_class(&run.model)));
    if want_nontrivial(tree, &run.model) {
        st.nontrivial(&format!("{}=>{}", key, ev_class(&run.model)));
    }
    st.sample(|| json!({"text": run.text, "context": ctx_json(sc), "expected": format!("{:?}", run.model).chars().take(160).collect::<String>()}));
    match agree(&run.engine, &run.model) {
        Ok(()) => Ok(()),
        Err(why) => {
            let kind = match &run.engine {
                Err(_) => "panic",
                Ok(Ok(_)) => "wrong-value",
                Ok(Err(_)) => "unexpected-error",
            };
            Err(Failure::new(
                format!("{}:{}:{}", root_op(tree), ev_class(&run.model), kind),
                format!("{}  [{} build]\n    {}", run.text, PROFILE, why),
                case_json(tree, sc),
            ))
        }
    }
}
