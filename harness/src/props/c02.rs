//! C02 — operators group exactly by the documented precedence and associativity.
use crate::eng::parse_sexp;
use crate::gen_syntax::{gen_program, join, SynCfg};
use crate::model::R;
use crate::runner::*;
use crate::src::Src;
use crate::syntax::{parse_tokens, OpTable, Tok, TK};
use serde_json::{json, Value as J};

pub static PROP: Prop = Prop {
    id: "C02",
    rule: "cases: token sequences operand (op operand)* with 1-12 operands, op drawn from all 32 built-in infix operators (all 11 levels, both associativities), optionally written `not OP`; operands carry 0-3 prefix operators and at most one postfix operator and are literals, names, calls, lists, maps, parenthesised sub-sequences (depth <= 4) ; a `? :` tail with probability ~1/3 at every expression level; several statements. Every program is parsed twice: on one line, and laid out over several lines (line breaks, tabs, CR LF, indentation between the tokens). Oracle: an independent precedence-climbing reference parser over the same tokens; and, model-free, the reference tree rendered fully parenthesised must parse to the same tree. Plus exhaustive: all ordered pairs of the 32 infix operators x {plain, not} x {no conditional, conditional tail} and all triples over one representative per (level, associativity). Non-trivial: the reference tree has an infix operator directly under another infix operator, or a `not OP`, or a conditional together with an infix operator, or a prefix over a postfix; distinct by operator skeleton (tree shape with operator names, leaves erased).",
    assumptions: &[
        "the reference parser implements the property statement (LEFT for calculation operators, RIGHT for assignments, `in` at 200, conditional below every infix operator and right-nesting, prefix tighter than infix, postfix tighter than prefix); it is cross-checked on every case by the fully parenthesised rendering",
        "at most one postfix operator per atom is generated (more is undocumented)",
    ],
    budget,
    setup: noop_setup,
    case,
    fixed,
    replay: Some(replay),
    breadcrumb: false,
    fuzz: &[Fuzz { target: "choice", choice: true, runs: 300000, max_len: 640 }],
};

fn budget(t: Tier) -> Budget {
    Budget {
        cases: t.pick(2_000_000, 30_000_000),
        max_len: 160,
        shards: 16,
        dual_profile: false,
    }
}

pub fn skeleton(r: &R) -> String {
    match r {
        R::Num(_) | R::Str(..) | R::Bool(_) | R::Ref(_) => "_".into(),
        R::Call(_, a) => format!("c({})", a.iter().map(skeleton).collect::<Vec<_>>().join(",")),
        R::List(a) => format!("[{}]", a.iter().map(skeleton).collect::<Vec<_>>().join(",")),
        R::Map(m) => format!("{{{}}}", m.iter().map(|(k, v)| format!("{}:{}", skeleton(k), skeleton(v))).collect::<Vec<_>>().join(",")),
        R::Prefix(op, x) => format!("({} {})", op, skeleton(x)),
        R::Postfix(x, op) => format!("({} {})", skeleton(x), op),
        R::Infix(op, l, rr) => format!("({} {} {})", skeleton(l), op, skeleton(rr)),
        R::NotInfix(op, l, rr) => format!("({} not {} {})", skeleton(l), op, skeleton(rr)),
        R::Cond(c, a, b) => format!("({}?{}:{})", skeleton(c), skeleton(a), skeleton(b)),
        R::Stmts(v) => v.iter().map(skeleton).collect::<Vec<_>>().join(";"),
    }
}

struct Feat {
    adjacent: Vec<String>,
    not_form: bool,
    cond: bool,
    infix: bool,
    pre_over_post: bool,
}

fn features(r: &R, tab: &OpTable, f: &mut Feat) {
    let prec = |op: &str| tab.infix.get(op).map(|x| x.0).unwrap_or(-1);
    match r {
        R::Infix(op, l, rr) | R::NotInfix(op, l, rr) => {
            f.infix = true;
            if matches!(r, R::NotInfix(..)) {
                f.not_form = true;
            }
            for (side, ch) in [("L", l), ("R", rr)] {
                if let R::Infix(cop, _, _) | R::NotInfix(cop, _, _) = &**ch {
                    f.adjacent.push(format!("adj:{}:{}:{}", prec(op), prec(cop), side));
                }
            }
            features(l, tab, f);
            features(rr, tab, f);
        }
        R::Prefix(_, x) => {
            if matches!(**x, R::Postfix(..)) {
                f.pre_over_post = true;
            }
            features(x, tab, f)
        }
        R::Postfix(x, _) => features(x, tab, f),
        R::Cond(c, a, b) => {
            f.cond = true;
            features(c, tab, f);
            features(a, tab, f);
            features(b, tab, f);
        }
        R::Call(_, a) | R::List(a) | R::Stmts(a) => a.iter().for_each(|x| features(x, tab, f)),
        R::Map(m) => m.iter().for_each(|(k, v)| {
            features(k, tab, f);
            features(v, tab, f)
        }),
        _ => {}
    }
}

pub fn check_tokens(toks: &[Tok], tab: &OpTable, st: &mut Stats) -> CaseResult {
    let text = join(toks);
    let case = json!({"text": text});
    let (expect, _) = match parse_tokens(toks, tab) {
        Ok(x) => x,
        Err(e) => return Err(Failure::new("harness-bug:generator", format!("the generator produced an ill-formed program: {} ({})", text, e), case)),
    };
    let mut f = Feat {
        adjacent: vec![],
        not_form: false,
        cond: false,
        infix: false,
        pre_over_post: false,
    };
    features(&expect, tab, &mut f);
    for a in &f.adjacent {
        st.hist(a);
    }
    if !f.adjacent.is_empty() || f.not_form || (f.cond && f.infix) || f.pre_over_post {
        st.nontrivial(&skeleton(&expect));
    }
    st.sample(|| json!({"text": text, "reference_tree": skeleton(&expect)}));
    let want = expect.sexp();
    match parse_sexp(&text) {
        Err(p) => return Err(Failure::new("panic", format!("parse of {} panicked: {}", text, p), case)),
        Ok(Err(e)) => return Err(Failure::new("rejected", format!("well-formed program rejected: {} ({})", text, e), case)),
        Ok(Ok(got)) => {
            if got != want {
                let sig = if f.not_form { "grouping:not-form" } else if f.cond { "grouping:with-conditional" } else { "grouping" };
                return Err(Failure::new(sig, format!("{}\n    engine   : {}\n    reference: {}", text, got, want), case));
            }
        }
    }
    // the same token sequence written over several lines (line breaks, tabs and indentation
    // between the tokens): grouping is a matter of the operators, not of the layout
    {
        const SEPS: [&str; 6] = ["\n", " ", "\n    ", "\t", "\r\n", "  "];
        let mut h = toks.len() * 31 + text.len();
        let mut laid = String::new();
        for (i, t) in toks.iter().enumerate() {
            if i > 0 {
                h = h.wrapping_mul(6364136223846793005usize).wrapping_add(t.text.len() + i);
                laid.push_str(SEPS[(h >> 33) % SEPS.len()]);
            }
            laid.push_str(&t.text);
        }
        match parse_sexp(&laid) {
            Ok(Ok(got)) if got == want => {}
            other => {
                return Err(Failure::new(
                    "grouping:multi-line-layout",
                    format!("{:?}\n    engine   : {:?}\n    reference: {}", laid, other, want),
                    json!({"text": laid}),
                ))
            }
        }
    }
    // parentheses override everything: needs no precedence knowledge at all
    let explicit = expect.render_explicit();
    match parse_sexp(&explicit) {
        Ok(Ok(got)) if got == want => Ok(()),
        other => Err(Failure::new(
            "paren-override",
            format!("fully parenthesised form {} parsed to {:?}, expected {}", explicit, other, want),
            json!({"text": explicit}),
        )),
    }
}

fn op_tok(s: &str) -> Tok {
    Tok::new(TK::Op, s)
}
fn name(s: &str) -> Tok {
    Tok::new(TK::Ref, s)
}

fn fixed(env: &Env, st: &mut Stats) -> CaseResult {
    let tab = OpTable::builtin();
    let ops: Vec<String> = tab.infix.keys().cloned().collect();
    let mut i = 0u64;
    // all ordered pairs x {plain, not} on either operator x {no cond, cond tail}
    for o1 in &ops {
        for o2 in &ops {
            for variant in 0..6 {
                i += 1;
                if !env.mine(i) {
                    continue;
                }
                st.eval();
                let mut toks = vec![name("a")];
                if variant == 1 || variant == 3 {
                    toks.push(op_tok("not"));
                }
                toks.push(op_tok(o1));
                toks.push(name("b"));
                if variant == 2 || variant == 3 {
                    toks.push(op_tok("not"));
                }
                toks.push(op_tok(o2));
                toks.push(name("c"));
                if variant >= 4 {
                    toks.push(op_tok("?"));
                    toks.push(name("d"));
                    if variant == 5 {
                        toks.push(op_tok(o1));
                        toks.push(name("e"));
                    }
                    toks.push(op_tok(":"));
                    toks.push(name("g"));
                    if variant == 5 {
                        toks.push(op_tok(o2));
                        toks.push(name("h"));
                    }
                }
                check_tokens(&toks, &tab, st)?;
            }
        }
    }
    // all triples over one representative per level (+ second associativity where it exists)
    let reps = ["=", "+=", "||", "&&", "<", "==", "|", "^", "&", "<<", "+", "-", "*", "%", "in", "beginWith"];
    for o1 in reps {
        for o2 in reps {
            for o3 in reps {
                i += 1;
                if !env.mine(i) {
                    continue;
                }
                st.eval();
                let toks = vec![name("a"), op_tok(o1), name("b"), op_tok(o2), name("c"), op_tok(o3), name("d")];
                check_tokens(&toks, &tab, st)?;
            }
        }
    }
    // prefix / postfix against every infix operator
    for o in &ops {
        for pre in ["-", "!", "not", "AND"] {
            for post in ["", "++", "--"] {
                i += 1;
                if !env.mine(i) {
                    continue;
                }
                st.eval();
                let mut toks = vec![op_tok(pre), name("a")];
                if !post.is_empty() {
                    toks.push(op_tok(post));
                }
                toks.push(op_tok(o));
                toks.push(op_tok(pre));
                toks.push(name("b"));
                if !post.is_empty() {
                    toks.push(op_tok(post));
                }
                check_tokens(&toks, &tab, st)?;
            }
        }
    }
    st.set_extra("exhaustive_pairs_and_triples", json!(true));
    Ok(())
}

fn case(src: &mut Src, st: &mut Stats, _env: &Env) -> CaseResult {
    st.eval();
    let tab = OpTable::builtin();
    let cfg = SynCfg::new(&tab);
    let toks = gen_program(src, &cfg);
    check_tokens(&toks, &tab, st)
}

fn replay(case: &J, st: &mut Stats, _env: &Env) -> CaseResult {
    st.eval();
    let tab = OpTable::builtin();
    let text = case["text"].as_str().unwrap_or("");
    let (toks, e) = crate::syntax::lex(text, &tab);
    if let Some(e) = e {
        return Err(Failure::new("harness-bug:replay", format!("cannot tokenize replay text: {}", e), case.clone()));
    }
    check_tokens(&toks, &tab, st)
}
