//! C13 — concurrent use is safe, including first use and concurrent registration.
use crate::model::V;
use crate::runner::*;
use crate::src::Src;
use expression_engine::verif_hooks::set_init_probe;
use expression_engine::{execute, parse_expression, register_function, Context, Value};
use serde_json::{json, Value as J};
use std::cell::Cell;
use std::sync::atomic::{AtomicBool, AtomicUsize, Ordering};
use std::sync::mpsc::channel;
use std::sync::{Arc, Barrier, Condvar, Mutex};
use std::time::{Duration, Instant};

pub static PROP: Prop = Prop {
    id: "C13",
    rule: "cases, each in a fresh child process (so that first use is really first use): (i) held initialisation: thread A makes the process's first engine call (parse, execute, or a register_* of a fresh or a built-in name); the init probe parks A after registration stage s in {1,2,3} (only prefix operators / prefix+infix / all operators but no functions registered); 1-14 threads B then make their first calls (programs that need the missing tables: 1+2, 2 ++, min(1,2), not true, 1 in [1], - 1; registrations of fresh names and overrides of built-ins min, +, -, ++); after a grace period the harness records which B returned while A was still parked, releases A and joins everything under a watchdog; (ii) free races: 2-16 threads released by one barrier, all making first calls (programs, registrations, and programs nested 120 and 150 levels deep); (iii) registration vs evaluation: thread R re-registers name N (function / prefix / infix / postfix) alternately with handlers h1 and h2 2000-20000 times while 2-8 threads evaluate texts that use N once, twice, in a malformed way (an operator without its operand: must be rejected at every moment), or once after `n += 1` on a fresh context with n = 0 (the result must show n = 1: one evaluation, one handler); after the race every evaluator evaluates once more and must see the handler registered last; a directed variant in which the first invocation of h1 parks until R has registered h2; and a precedence variant in which `hi` alternates between precedence 105 and 125 while the other threads parse `1 + 2 hi 3 * 4 hi 5 + 6` (every tree must be one of the two sequential ones). (v) registration storms: 2, 4 and 8 threads released by one barrier each register fresh names of one kind (infix, postfix, prefix, function) 300000 times while another thread keeps evaluating a built-in program: all return within the watchdog, the evaluations keep their value, every registration is in effect; (iv) fresh-word races: one thread registers 30000 fresh word operators vh_w0, vh_w1 ... (prefix, infix or postfix) one after the other while 1-3 threads are already evaluating programs that spell the word being registered; an evaluation that starts after register_* has returned must read the operator, and afterwards every word is an operator. Oracle: no panic on any thread, all threads joined within the watchdog, every result is one that some sequential order of the calls produces (fixed reference value, or - when an override of the name involved is registered concurrently - the built-in or the override result; for N: every use inside one evaluation shows the same handler, h1 or h2, never an error or another shape), a B thread that returned while A was parked must be correct, and after the join every registration made is in effect (final battery). Non-trivial: (i) at least one B needed a table that was missing while A was parked, (ii) >= 2 different call kinds raced, (iii) an evaluator thread observed both handlers; distinct by (mode, A kind, stage, B kinds / thread count / registry kind and text).",
    assumptions: &[
        "the harness owns only the interleavings it can force (parking A between init stages through the cfg-guarded probe; parking a handler); other interleavings are sampled by free-running repetition",
        "watchdog: 10 s against milliseconds; an expiry must reproduce on two more runs to count as a deadlock",
    ],
    budget,
    setup: noop_setup,
    case,
    fixed,
    replay: Some(replay),
    breadcrumb: false,
    fuzz: &[],
};

fn budget(t: Tier) -> Budget {
    Budget {
        cases: t.pick(5_000, 60_000),
        max_len: 48,
        shards: 16,
        dual_profile: false,
    }
}

pub const CALLS: [&str; 18] = [
    "execdeep:150", "execdeep:120",
    "parse:1+2", "exec:1+2", "exec:2 ++", "exec:min(1,2)", "exec:not true", "exec:1 in [1]", "exec:- 1", "exec:[1+2 , 2 ++ , min(3,4) , - 5]", "reg_fn:fresh", "reg_fn:min",
    "reg_prefix:fresh", "reg_prefix:-", "reg_infix:fresh", "reg_infix:+", "reg_postfix:fresh", "reg_postfix:++",
];

fn echo(id: i64, args: Vec<Value>) -> Value {
    let mut v = vec![Value::from(id)];
    v.extend(args);
    Value::List(v)
}

/// performs one call; registrations use handler id `id`
fn do_call(kind: &str, id: i64) -> String {
    let r = guard(|| {
        let (op, arg) = kind.split_once(':').unwrap_or((kind, ""));
        match op {
            "parse" => match parse_expression(arg) {
                Ok(a) => format!("Parsed({})", crate::model::sexp_ast(&a)),
                Err(e) => format!("Err({})", e),
            },
            "execdeep" => {
                // a program nested `arg` levels deep, evaluated like any other
                let n: usize = arg.parse().unwrap_or(100);
                let text = format!("{}1{}", "[".repeat(n), "]".repeat(n));
                match execute(&text, Context::new()) {
                    Ok(v) => format!("Ok({})", V::from_value(&v).key()),
                    Err(e) => format!("Err({})", e),
                }
            }
            "exec" if arg.starts_with("n += 1") => {
                let mut ctx = Context::new();
                ctx.set_variable("n", Value::from(0));
                match execute(arg, ctx) {
                    Ok(v) => format!("Ok({})", V::from_value(&v).key()),
                    Err(e) => format!("Err({})", e),
                }
            }
            "exec" => match execute(arg, Context::new()) {
                Ok(v) => format!("Ok({})", V::from_value(&v).key()),
                Err(e) => format!("Err({})", e),
            },
            "reg_fn" => {
                let name = if arg == "fresh" { format!("fresh_f{}", id) } else { arg.to_string() };
                register_function(&name, Arc::new(move |a| Ok(echo(id, a))));
                "Registered".to_string()
            }
            _ => {
                let k = &op[4..];
                let name = if arg == "fresh" { format!("fresh_{}{}", &k[..2], id) } else { arg.to_string() };
                let prec = if name == "+" { 110 } else { 105 };
                crate::props::register_op(&json!({"kind": k, "name": name, "prec": prec, "right": false}), id);
                "Registered".to_string()
            }
        }
    });
    match r {
        Ok(s) => s,
        Err(p) => format!("PANIC({})", p),
    }
}

thread_local! {
    static IS_A: Cell<bool> = Cell::new(false);
}

struct Gate {
    parked: Mutex<bool>,
    released: Mutex<bool>,
    cv: Condvar,
}

fn join_all(handles: Vec<(usize, std::sync::mpsc::Receiver<String>)>, deadline: Instant) -> Vec<(usize, Option<String>)> {
    handles
        .into_iter()
        .map(|(i, rx)| {
            let left = deadline.saturating_duration_since(Instant::now());
            (i, rx.recv_timeout(left.max(Duration::from_millis(1))).ok())
        })
        .collect()
}

fn final_battery() -> J {
    json!({
        "min": do_call("exec:min(1,2)", 0),
        "plus": do_call("exec:1+2", 0),
        "neg": do_call("exec:- 1", 0),
        "inc": do_call("exec:2 ++", 0),
        "not": do_call("exec:not true", 0),
        "in": do_call("exec:1 in [1]", 0),
        "fresh": (0..20).map(|i| (i, do_call(&format!("exec:[fresh_f{}(1)]", i), 0), do_call(&format!("exec:fresh_pr{} 1", i), 0), do_call(&format!("exec:1 fresh_in{} 2", i), 0), do_call(&format!("exec:1 fresh_po{}", i), 0))).map(|t| json!([t.0, t.1, t.2, t.3, t.4])).collect::<Vec<_>>(),
    })
}

fn worker_held(doc: &J) -> J {
    let stage = doc["stage"].as_u64().unwrap_or(1) as u8;
    let a_kind = doc["a"].as_str().unwrap_or("parse:1+2").to_string();
    let bs: Vec<String> = doc["b"].as_array().map(|a| a.iter().map(|x| x.as_str().unwrap_or("").to_string()).collect()).unwrap_or_default();
    let grace = doc["grace_ms"].as_u64().unwrap_or(30);
    let gate = Arc::new(Gate {
        parked: Mutex::new(false),
        released: Mutex::new(false),
        cv: Condvar::new(),
    });
    let g2 = gate.clone();
    set_init_probe(Box::new(move |s| {
        if s == stage && IS_A.with(|f| f.get()) {
            *g2.parked.lock().unwrap() = true;
            g2.cv.notify_all();
            let mut rel = g2.released.lock().unwrap();
            while !*rel {
                rel = g2.cv.wait(rel).unwrap();
            }
        }
    }));
    let (txa, rxa) = channel::<String>();
    let ak = a_kind.clone();
    std::thread::spawn(move || {
        IS_A.with(|f| f.set(true));
        let _ = txa.send(do_call(&ak, 0));
    });
    // wait until A is parked (or has finished without ever being parked)
    let t0 = Instant::now();
    let mut a_result: Option<String> = None;
    loop {
        if *gate.parked.lock().unwrap() {
            break;
        }
        if let Ok(r) = rxa.try_recv() {
            a_result = Some(r);
            break;
        }
        if t0.elapsed() > Duration::from_secs(5) {
            break;
        }
        std::thread::sleep(Duration::from_micros(200));
    }
    let was_parked = *gate.parked.lock().unwrap();
    let done_flags: Vec<Arc<AtomicBool>> = bs.iter().map(|_| Arc::new(AtomicBool::new(false))).collect();
    let mut handles = vec![];
    for (i, k) in bs.iter().enumerate() {
        let (tx, rx) = channel::<String>();
        let k = k.clone();
        let flag = done_flags[i].clone();
        std::thread::spawn(move || {
            let r = do_call(&k, 1 + i as i64);
            flag.store(true, Ordering::SeqCst);
            let _ = tx.send(r);
        });
        handles.push((i, rx));
    }
    std::thread::sleep(Duration::from_millis(grace));
    let early: Vec<bool> = done_flags.iter().map(|f| f.load(Ordering::SeqCst)).collect();
    *gate.released.lock().unwrap() = true;
    gate.cv.notify_all();
    let deadline = Instant::now() + Duration::from_secs(10);
    let results = join_all(handles, deadline);
    if a_result.is_none() {
        a_result = rxa.recv_timeout(deadline.saturating_duration_since(Instant::now()).max(Duration::from_millis(1))).ok();
    }
    json!({
        "a": a_result,
        "a_was_parked": was_parked,
        "b": results.iter().map(|(i, r)| json!({"kind": bs[*i], "result": r, "returned_while_parked": early[*i]})).collect::<Vec<_>>(),
        "final": final_battery(),
    })
}

fn worker_race(doc: &J) -> J {
    let ks: Vec<String> = doc["calls"].as_array().map(|a| a.iter().map(|x| x.as_str().unwrap_or("").to_string()).collect()).unwrap_or_default();
    let barrier = Arc::new(Barrier::new(ks.len()));
    let mut handles = vec![];
    for (i, k) in ks.iter().enumerate() {
        let (tx, rx) = channel::<String>();
        let k = k.clone();
        let b = barrier.clone();
        std::thread::spawn(move || {
            b.wait();
            let _ = tx.send(do_call(&k, 1 + i as i64));
        });
        handles.push((i, rx));
    }
    let results = join_all(handles, Instant::now() + Duration::from_secs(10));
    json!({
        "b": results.iter().map(|(i, r)| json!({"kind": ks[*i], "result": r, "returned_while_parked": false})).collect::<Vec<_>>(),
        "final": final_battery(),
    })
}

fn reg_n(kind: &str, id: i64, park: Option<Arc<(Mutex<u8>, Condvar)>>) {
    // handler `id`; with `park`, its first invocation signals and waits for the release
    let first = Arc::new(AtomicBool::new(true));
    let make = move |args: Vec<Value>| -> Value {
        if let Some(p) = &park {
            if first.swap(false, Ordering::SeqCst) {
                let (m, cv) = &**p;
                let mut st = m.lock().unwrap();
                *st = 1; // h1 is running
                cv.notify_all();
                while *st != 2 {
                    st = cv.wait(st).unwrap();
                }
            }
        }
        echo(id, args)
    };
    let make = Arc::new(make);
    use expression_engine::{register_infix_op, register_postfix_op, register_prefix_op, InfixOpAssociativity, InfixOpType};
    match kind {
        "function" => {
            let m = make.clone();
            register_function("hi", Arc::new(move |a| Ok(m(a))))
        }
        "prefix" => {
            let m = make.clone();
            register_prefix_op("hi", Arc::new(move |a| Ok(m(vec![a]))))
        }
        "infix" => {
            let m = make.clone();
            register_infix_op("hi", 115, InfixOpType::CALC, InfixOpAssociativity::LEFT, Arc::new(move |a, b| Ok(m(vec![a, b]))))
        }
        _ => {
            let m = make.clone();
            register_postfix_op("hi", Arc::new(move |a| Ok(m(vec![a]))))
        }
    }
}

pub fn texts_for(kind: &str) -> [&'static str; 4] {
    // the third text is not idempotent on its (fresh) context: replaying it would show;
    // the fourth is malformed as long as `hi` is the operator it is registered as (an operator
    // without its operand) and must be rejected at every moment of the race
    match kind {
        "function" => ["hi(1)", "[hi(1) , hi(2)]", "n += 1 ; hi(n)", "hi(1"],
        "prefix" => ["hi 1", "[hi 1 , hi 2]", "n += 1 ; hi n", "hi"],
        "infix" => ["1 hi 2", "[1 hi 2 , 3 hi 4]", "n += 1 ; n hi 2", "1 hi"],
        _ => ["1 hi", "[1 hi , 2 hi]", "n += 1 ; n hi", "hi 1"],
    }
}

fn worker_regrace(doc: &J) -> J {
    let kind = doc["kind"].as_str().unwrap_or("infix").to_string();
    let iters = doc["iters"].as_u64().unwrap_or(2000);
    let nthreads = doc["threads"].as_u64().unwrap_or(4) as usize;
    let which = doc["text"].as_u64().unwrap_or(0) as usize % 4;
    let text = texts_for(&kind)[which].to_string();
    if doc["directed"].as_bool() == Some(true) {
        let park = Arc::new((Mutex::new(0u8), Condvar::new()));
        reg_n(&kind, 1, Some(park.clone()));
        let (tx, rx) = channel::<String>();
        let t2 = text.clone();
        std::thread::spawn(move || {
            let _ = tx.send(do_call(&format!("exec:{}", t2), 0));
        });
        // wait until h1 runs, register h2, release h1
        {
            let (m, cv) = &*park;
            let mut stt = m.lock().unwrap();
            let t0 = Instant::now();
            while *stt != 1 && t0.elapsed() < Duration::from_secs(5) {
                let (g, _) = cv.wait_timeout(stt, Duration::from_millis(50)).unwrap();
                stt = g;
            }
        }
        reg_n(&kind, 2, None);
        {
            let (m, cv) = &*park;
            *m.lock().unwrap() = 2;
            cv.notify_all();
        }
        let r = rx.recv_timeout(Duration::from_secs(10)).ok();
        return json!({"results": [r], "text": text, "kind": kind, "directed": true});
    }
    if kind == "infix-precedence" {
        return worker_prec_race(iters, nthreads);
    }
    reg_n(&kind, 1, None);
    let stop = Arc::new(AtomicBool::new(false));
    let count = Arc::new(AtomicUsize::new(0));
    let mut handles = vec![];
    for _ in 0..nthreads {
        let (tx, rx) = channel::<Vec<String>>();
        let (stop, text, count) = (stop.clone(), text.clone(), count.clone());
        std::thread::spawn(move || {
            // distinct results only (with counts implied)
            let mut seen: Vec<String> = vec![];
            while !stop.load(Ordering::SeqCst) {
                let r = do_call(&format!("exec:{}", text), 0);
                count.fetch_add(1, Ordering::Relaxed);
                if !seen.contains(&r) {
                    seen.push(r);
                }
            }
            // the last registration has returned before `stop` was set: this thread, which has
            // used the name many times, must now see exactly that handler
            let last = do_call(&format!("exec:{}", text), 0);
            seen.push(format!("FINAL {}", last));
            let _ = tx.send(seen);
        });
        handles.push(rx);
    }
    for i in 0..iters {
        reg_n(&kind, 1 + (i as i64 + 1) % 2, None);
    }
    // let the evaluators see the final state at least once
    std::thread::sleep(Duration::from_millis(2));
    stop.store(true, Ordering::SeqCst);
    let per_thread: Vec<Option<Vec<String>>> = handles.into_iter().map(|rx| rx.recv_timeout(Duration::from_secs(10)).ok()).collect();
    let final_id = if iters == 0 { 1 } else { 1 + (iters % 2) };
    json!({"per_thread": per_thread, "text": text, "kind": kind, "evaluations": count.load(Ordering::Relaxed), "final_id": final_id})
}

pub const PREC_TEXT: &str = "1 + 2 hi 3 * 4 hi 5 + 6";

fn reg_prec(which: u8) {
    use expression_engine::{register_infix_op, InfixOpAssociativity, InfixOpType};
    let (p, id) = if which == 1 { (105, 1) } else { (125, 2) };
    register_infix_op("hi", p, InfixOpType::CALC, InfixOpAssociativity::LEFT, Arc::new(move |a, b| Ok(echo(id, vec![a, b]))));
}

/// R re-registers `hi` alternately at precedence 105 and 125 while the other threads parse a text
/// whose grouping depends on it: every parse must be one of the two sequential trees
fn worker_prec_race(iters: u64, nthreads: usize) -> J {
    reg_prec(1);
    let stop = Arc::new(AtomicBool::new(false));
    let count = Arc::new(AtomicUsize::new(0));
    let mut handles = vec![];
    for _ in 0..nthreads {
        let (tx, rx) = channel::<Vec<String>>();
        let (stop, count) = (stop.clone(), count.clone());
        std::thread::spawn(move || {
            let mut seen: Vec<String> = vec![];
            while !stop.load(Ordering::SeqCst) {
                let r = do_call(&format!("parse:{}", PREC_TEXT), 0);
                count.fetch_add(1, Ordering::Relaxed);
                if !seen.contains(&r) {
                    seen.push(r);
                }
            }
            let _ = tx.send(seen);
        });
        handles.push(rx);
    }
    for i in 0..iters {
        reg_prec(1 + ((i + 1) % 2) as u8);
    }
    std::thread::sleep(Duration::from_millis(2));
    stop.store(true, Ordering::SeqCst);
    let per_thread: Vec<Option<Vec<String>>> = handles.into_iter().map(|rx| rx.recv_timeout(Duration::from_secs(10)).ok()).collect();
    json!({"per_thread": per_thread, "text": PREC_TEXT, "kind": "infix-precedence", "evaluations": count.load(Ordering::Relaxed)})
}

/// many threads register fresh names of all four kinds at the same time, thousands of times each,
/// while one more thread keeps evaluating: everything returns, every registration is in effect
fn worker_regstorm(doc: &J) -> J {
    let threads = doc["threads"].as_u64().unwrap_or(4).max(2) as usize;
    let iters = doc["iters"].as_u64().unwrap_or(2000) as usize;
    let budget = Duration::from_millis(doc["budget_ms"].as_u64().unwrap_or(6000));
    let barrier = Arc::new(Barrier::new(threads + 1));
    let stop = Arc::new(AtomicBool::new(false));
    let mut hs = vec![];
    for t in 0..threads {
        let b = barrier.clone();
        hs.push(std::thread::spawn(move || {
            b.wait();
            let t0 = Instant::now();
            for i in 0..iters {
                // bounded by wall clock too: slowness never becomes a verdict (the first 50
                // registrations, which the final check relies on, are always made)
                if i >= 50 && i % 64 == 0 && t0.elapsed() > budget {
                    break;
                }
                let name = format!("vh_s{}_{}", t, i % 50);
                match t % 4 {
                    0 => expression_engine::register_infix_op(&name, 100, expression_engine::InfixOpType::CALC, expression_engine::InfixOpAssociativity::LEFT, Arc::new(|_, _| Ok(Value::from(-1)))),
                    1 => expression_engine::register_postfix_op(&name, Arc::new(|_| Ok(Value::from(-1)))),
                    2 => expression_engine::register_prefix_op(&name, Arc::new(|_| Ok(Value::from(-1)))),
                    _ => register_function(&name, Arc::new(|_| Ok(Value::from(-1)))),
                }
            }
        }));
    }
    let (b, s) = (barrier.clone(), stop.clone());
    let reader = std::thread::spawn(move || {
        b.wait();
        let mut n = 0u64;
        let mut bad: Vec<String> = vec![];
        while !s.load(Ordering::SeqCst) {
            let r = guard(|| execute("1 + 2 * 3 - min(4 , 5) ++", Context::new()).map(|v| V::from_value(&v).key()).map_err(|e| e.to_string()));
            if !matches!(&r, Ok(Ok(k)) if k == "n2") && bad.len() < 3 {
                bad.push(format!("{:?}", r));
            }
            n += 1;
        }
        (n, bad)
    });
    let mut joined = 0;
    for h in hs {
        if h.join().is_ok() {
            joined += 1;
        }
    }
    stop.store(true, Ordering::SeqCst);
    let (evals, bad) = reader.join().unwrap_or((0, vec!["reader died".into()]));
    // every thread's last registrations are in effect
    let mut lost = vec![];
    for t in 0..threads {
        for i in 0..50.min(iters) {
            let name = format!("vh_s{}_{}", t, i);
            let text = match t % 4 {
                0 => format!("5 {} 6", name),
                1 => format!("5 {}", name),
                2 => format!("{} 5", name),
                _ => format!("{}(5)", name),
            };
            let r = guard(|| execute(&text, Context::new()).map(|v| V::from_value(&v).key()).map_err(|e| e.to_string()));
            if !matches!(&r, Ok(Ok(k)) if k == "n-1") && lost.len() < 5 {
                lost.push(json!({"program": text, "result": format!("{:?}", r)}));
            }
        }
    }
    json!({"joined": joined, "threads": threads, "reader_evaluations": evals, "reader_anomalies": bad, "lost": lost})
}

/// first registrations of fresh word operators while other threads are already parsing programs
/// that spell them: a parse that STARTS after register_* has returned must read the operator
fn worker_freshrace(doc: &J) -> J {
    let words = doc["words"].as_u64().unwrap_or(1000) as usize;
    let readers = doc["readers"].as_u64().unwrap_or(2).max(1) as usize;
    let kind = doc["kind"].as_str().unwrap_or("prefix").to_string();
    let cur = Arc::new(AtomicUsize::new(0));
    let registered = Arc::new(AtomicUsize::new(0)); // number of words whose register call has returned
    let stop = Arc::new(AtomicBool::new(false));
    let text_of = |kind: &str, i: usize| match kind {
        "prefix" => format!("vh_w{} 5", i),
        "postfix" => format!("5 vh_w{}", i),
        _ => format!("5 vh_w{} 6", i),
    };
    let mut hs = vec![];
    for _ in 0..readers {
        let (cur, registered, stop, kind) = (cur.clone(), registered.clone(), stop.clone(), kind.clone());
        hs.push(std::thread::spawn(move || {
            // per word: the first result observed by a parse that began after the registration returned
            let mut lost: Vec<J> = vec![];
            let mut seen_before = 0u64;
            let mut done = 0usize; // words this reader has finished with
            while !stop.load(Ordering::SeqCst) || done < registered.load(Ordering::SeqCst) {
                let i = cur.load(Ordering::SeqCst).max(done);
                if i < done || i >= usize::MAX / 2 {
                    std::thread::yield_now();
                    continue;
                }
                let was_registered = registered.load(Ordering::SeqCst) > i;
                let text = text_of(&kind, i);
                let r = guard(|| execute(&text, Context::new()).map(|v| V::from_value(&v).key()).map_err(|e| e.to_string()));
                let is_op = matches!(&r, Ok(Ok(k)) if k == "n-1");
                if is_op {
                    done = i + 1;
                } else if was_registered {
                    if lost.len() < 5 {
                        lost.push(json!({"word": format!("vh_w{}", i), "program": text, "result": format!("{:?}", r)}));
                    }
                    done = i + 1;
                } else {
                    seen_before += 1;
                    if stop.load(Ordering::SeqCst) {
                        break;
                    }
                }
            }
            (lost, seen_before)
        }));
    }
    // the amount of work is bounded by a wall-clock budget as well (a loaded machine explores
    // fewer words; it never turns slowness into a verdict)
    let budget = Duration::from_millis(doc["budget_ms"].as_u64().unwrap_or(6000));
    let t0 = Instant::now();
    let mut words_done = 0usize;
    for i in 0..words {
        if t0.elapsed() > budget {
            break;
        }
        words_done = i + 1;
        cur.store(i, Ordering::SeqCst);
        // let the readers meet the spelling as a plain name first
        for _ in 0..(i % 7) {
            std::thread::yield_now();
        }
        let name = format!("vh_w{}", i);
        match kind.as_str() {
            "prefix" => expression_engine::register_prefix_op(&name, Arc::new(|_| Ok(Value::from(-1)))),
            "postfix" => expression_engine::register_postfix_op(&name, Arc::new(|_| Ok(Value::from(-1)))),
            _ => expression_engine::register_infix_op(&name, 100, expression_engine::InfixOpType::CALC, expression_engine::InfixOpAssociativity::LEFT, Arc::new(|_, _| Ok(Value::from(-1)))),
        }
        registered.store(i + 1, Ordering::SeqCst);
    }
    stop.store(true, Ordering::SeqCst);
    let mut lost: Vec<J> = vec![];
    let mut before = 0u64;
    let mut hung = false;
    for h in hs {
        match h.join() {
            Ok((l, b)) => {
                lost.extend(l);
                before += b;
            }
            Err(_) => hung = true,
        }
    }
    // final observation from this thread: every word is an operator now
    let mut final_lost = vec![];
    for i in 0..words_done {
        let text = text_of(&kind, i);
        let r = guard(|| execute(&text, Context::new()).map(|v| V::from_value(&v).key()).map_err(|e| e.to_string()));
        if !matches!(&r, Ok(Ok(k)) if k == "n-1") && final_lost.len() < 5 {
            final_lost.push(json!({"word": format!("vh_w{}", i), "program": text, "result": format!("{:?}", r)}));
        }
    }
    json!({"lost": lost, "final_lost": final_lost, "parses_before_registration": before, "reader_died": hung, "words_registered": words_done})
}

pub fn worker() -> i32 {
    use std::io::Read;
    install_panic_hook();
    let mut s = String::new();
    std::io::stdin().read_to_string(&mut s).ok();
    let doc: J = serde_json::from_str(&s).unwrap_or(json!({}));
    let out = match doc["mode"].as_str().unwrap_or("") {
        "held" => worker_held(&doc),
        "race" => worker_race(&doc),
        "freshrace" => worker_freshrace(&doc),
        "regstorm" => worker_regstorm(&doc),
        _ => worker_regrace(&doc),
    };
    println!("{}", out);
    0
}

// ----- parent side -----

/// results that some sequential order of the calls can produce
fn allowed(kind: &str, all: &[String]) -> Vec<String> {
    let over = |name: &str| all.iter().any(|k| k.ends_with(&format!(":{}", name)) && k.starts_with("reg_"));
    let (op, arg) = kind.split_once(':').unwrap_or((kind, ""));
    let ids: Vec<i64> = (0..=all.len() as i64).collect();
    let mut v: Vec<String> = vec![];
    match op {
        "parse" => v.push("Parsed((bin s1:+ (num 1e-0) (num 2e-0)))".into()),
        "execdeep" => {
            let n: usize = arg.parse().unwrap_or(100);
            v.push(format!("Ok({}n1{})", "[".repeat(n), "]".repeat(n)));
        }
        "exec" => match arg {
            "1+2" => {
                v.push("Ok(n3)".into());
                if over("+") {
                    ids.iter().for_each(|i| v.push(format!("Ok([n{},n1,n2])", i)));
                }
            }
            "2 ++" => {
                v.push("Ok(n3)".into());
                if over("++") {
                    ids.iter().for_each(|i| v.push(format!("Ok([n{},n2])", i)));
                }
            }
            "min(1,2)" => {
                v.push("Ok(n1)".into());
                if over("min") {
                    ids.iter().for_each(|i| v.push(format!("Ok([n{},n1,n2])", i)));
                }
            }
            "not true" => v.push("Ok(bfalse)".into()),
            "1 in [1]" => v.push("Ok(btrue)".into()),
            "- 1" => {
                v.push("Ok(n-1)".into());
                if over("-") {
                    ids.iter().for_each(|i| v.push(format!("Ok([n{},n1])", i)));
                }
            }
            _ => {
                // the list program: only checked when no override races with it
                if !(over("+") || over("++") || over("min") || over("-")) {
                    v.push("Ok([n3,n3,n3,n-5])".into());
                }
            }
        },
        _ => v.push("Registered".into()),
    }
    v
}

fn check_calls(doc: &J, all_kinds: &[String], scenario: &J, label: &str) -> CaseResult {
    for b in doc["b"].as_array().cloned().unwrap_or_default() {
        let kind = b["kind"].as_str().unwrap_or("");
        let res = match b["result"].as_str() {
            Some(r) => r.to_string(),
            None => {
                return Err(Failure::new(
                    format!("deadlock:{}", label),
                    format!("thread making call `{}` did not return within the 10 s watchdog\n    child output: {}", kind, doc),
                    scenario.clone(),
                ))
            }
        };
        if res.starts_with("PANIC") {
            return Err(Failure::new(format!("panic:{}", panic_file(&res[6..])), format!("call `{}` panicked: {}", kind, res), scenario.clone()));
        }
        let ok = allowed(kind, all_kinds);
        if !ok.is_empty() && !ok.contains(&res) {
            let early = b["returned_while_parked"].as_bool().unwrap_or(false);
            let sig = if early { format!("partial-init:returned-while-parked:{}", kind.split(':').next().unwrap_or("")) } else { format!("not-sequential:{}", kind) };
            return Err(Failure::new(
                sig,
                format!("call `{}` returned {} which no sequential order of the calls produces (allowed: {:?}){}", kind, res, ok, if early { " - it returned while the initialising thread was still parked mid-initialisation" } else { "" }),
                scenario.clone(),
            ));
        }
    }
    // final battery: every registration made must be in effect, built-ins otherwise
    let f = &doc["final"];
    let over = |name: &str| all_kinds.iter().any(|k| k.starts_with("reg_") && k.ends_with(&format!(":{}", name)));
    for (key, name, builtin, shape) in [("min", "min", "Ok(n1)", "n1,n2"), ("plus", "+", "Ok(n3)", "n1,n2"), ("neg", "-", "Ok(n-1)", "n1"), ("inc", "++", "Ok(n3)", "n2")] {
        let got = f[key].as_str().unwrap_or("");
        if over(name) {
            let registered_ok = (0..=all_kinds.len() as i64 + 1).any(|i| got == format!("Ok([n{},{}])", i, shape));
            if !registered_ok {
                return Err(Failure::new(
                    format!("lost-registration:{}", name),
                    format!("after all threads were joined, `{}` evaluates to {} although an override of it was registered (and its register_* call had returned)", name, got),
                    scenario.clone(),
                ));
            }
        } else if got != builtin {
            return Err(Failure::new(format!("broken-builtin:{}", name), format!("after the run `{}` evaluates to {} instead of {}", name, got, builtin), scenario.clone()));
        }
    }
    for (key, want) in [("not", "Ok(bfalse)"), ("in", "Ok(btrue)")] {
        if f[key].as_str() != Some(want) {
            return Err(Failure::new(format!("broken-builtin:{}", key), format!("after the run `{}` evaluates to {:?}", key, f[key]), scenario.clone()));
        }
    }
    // fresh registrations by thread id
    for (i, k) in all_kinds.iter().enumerate() {
        let id = if label == "held" && i == 0 { 0 } else if label == "held" { i as i64 } else { 1 + i as i64 };
        let row = f["fresh"].as_array().and_then(|a| a.iter().find(|r| r[0].as_i64() == Some(id))).cloned().unwrap_or(json!([]));
        let (col, want) = match k.as_str() {
            "reg_fn:fresh" => (1, format!("Ok([[n{},n1]])", id)),
            "reg_prefix:fresh" => (2, format!("Ok([n{},n1])", id)),
            "reg_infix:fresh" => (3, format!("Ok([n{},n1,n2])", id)),
            "reg_postfix:fresh" => (4, format!("Ok([n{},n1])", id)),
            _ => continue,
        };
        if id < 20 && row[col].as_str() != Some(want.as_str()) {
            return Err(Failure::new(
                format!("lost-registration:{}", k),
                format!("the handler registered by call #{} (`{}`) is not in effect afterwards: got {:?}, expected {}", i, k, row[col], want),
                scenario.clone(),
            ));
        }
    }
    Ok(())
}

fn run_child_json(scenario: &J, env: &Env, st: &mut Stats) -> Result<J, Failure> {
    let mut attempts = 0;
    loop {
        attempts += 1;
        let out = run_child(&env.exe, &["worker", "c13"], &scenario.to_string(), Duration::from_secs(40));
        st.add_extra("child_processes", 1);
        match (&out.end, serde_json::from_str::<J>(out.stdout.trim())) {
            (ChildEnd::Exit(0), Ok(d)) => return Ok(d),
            (ChildEnd::Timeout, _) if attempts < 3 => continue,
            (ChildEnd::Timeout, _) => return Err(Failure::new("deadlock:process", format!("the scenario did not finish within 40 s, three times; stderr: {}", out.stderr), scenario.clone())),
            (end, _) => return Err(Failure::new(format!("child:{:?}", end).replace(' ', ""), format!("child ended abnormally; stdout: {} stderr: {}", out.stdout, out.stderr), scenario.clone())),
        }
    }
}

/// concurrent registrations of all four kinds
pub fn run_regstorm(threads: usize, iters: u64, env: &Env, st: &mut Stats) -> CaseResult {
    let scenario = json!({"mode": "regstorm", "threads": threads, "iters": iters, "budget_ms": env.tier.pick(6_000, 20_000)});
    st.eval();
    st.hist("regstorm");
    st.nontrivial(&format!("regstorm:{}", threads));
    let doc = run_child_json(&scenario, env, st)?;
    st.sample(|| json!({"scenario": scenario, "observed": doc}));
    if doc["joined"].as_u64() != Some(threads as u64) {
        return Err(Failure::new("panic:regstorm", format!("a registering thread died: {}", doc), scenario));
    }
    if let Some(a) = doc["reader_anomalies"].as_array().and_then(|a| a.first()) {
        return Err(Failure::new("not-sequential:regstorm", format!("while {} threads were registering fresh names, an evaluation of `1 + 2 * 3 - min(4 , 5) ++` gave {}", threads, a), scenario));
    }
    if let Some(l) = doc["lost"].as_array().and_then(|a| a.first()) {
        return Err(Failure::new("lost-registration:regstorm", format!("after {} threads had registered fresh names concurrently, `{}` evaluates to {}", threads, l["program"].as_str().unwrap_or(""), l["result"].as_str().unwrap_or("")), scenario));
    }
    Ok(())
}

/// fresh word operators are registered while other threads already parse programs spelling them
pub fn run_freshrace(kind: &str, readers: usize, words: u64, env: &Env, st: &mut Stats) -> CaseResult {
    let scenario = json!({"mode": "freshrace", "kind": kind, "readers": readers, "words": words, "budget_ms": env.tier.pick(6_000, 20_000)});
    st.eval();
    st.hist(&format!("freshrace:{}", kind));
    let doc = run_child_json(&scenario, env, st)?;
    st.sample(|| json!({"scenario": scenario, "observed": doc}));
    if doc["parses_before_registration"].as_u64().unwrap_or(0) > 0 {
        st.nontrivial(&format!("freshrace:{}:{}", kind, readers));
    }
    st.hist_add("freshrace:parses-before-registration", doc["parses_before_registration"].as_u64().unwrap_or(0));
    st.hist_add("freshrace:words-registered", doc["words_registered"].as_u64().unwrap_or(0));
    for key in ["lost", "final_lost"] {
        if let Some(l) = doc[key].as_array().and_then(|a| a.first()) {
            return Err(Failure::new(
                format!("lost-registration:fresh-word-operator:{}", kind),
                format!(
                    "register_{}_op({:?}) had returned, yet a later evaluation of `{}` gave {} (the word is still read as a plain name); other threads were parsing programs with that spelling while it was being registered",
                    kind,
                    l["word"].as_str().unwrap_or(""),
                    l["program"].as_str().unwrap_or(""),
                    l["result"].as_str().unwrap_or("")
                ),
                scenario,
            ));
        }
    }
    if doc["reader_died"].as_bool() == Some(true) {
        return Err(Failure::new("panic:freshrace", format!("a reader thread died: {}", doc), scenario));
    }
    Ok(())
}

pub fn run_held(a: &str, stage: u64, bs: &[&str], env: &Env, st: &mut Stats) -> CaseResult {
    let scenario = json!({"mode": "held", "a": a, "stage": stage, "b": bs, "grace_ms": 25});
    st.eval();
    st.hist(&format!("held:stage{}", stage));
    let doc = run_child_json(&scenario, env, st)?;
    st.sample(|| json!({"scenario": scenario, "observed": {"a": doc["a"], "a_was_parked": doc["a_was_parked"], "b": doc["b"]}}));
    let mut all: Vec<String> = vec![a.to_string()];
    all.extend(bs.iter().map(|s| s.to_string()));
    if doc["a_was_parked"].as_bool() == Some(true) && bs.iter().any(|b| b.starts_with("exec") || b.starts_with("parse")) {
        st.nontrivial(&format!("held:{}:{}:{:?}", a, stage, bs));
    }
    if doc["a"].is_null() {
        return Err(Failure::new("deadlock:held", format!("the initialising thread (call `{}`) never returned; output: {}", a, doc), scenario));
    }
    // A's own result
    let a_doc = json!({"b": [{"kind": a, "result": doc["a"], "returned_while_parked": false}], "final": doc["final"]});
    check_calls(&a_doc, &all, &scenario, "held")?;
    check_calls(&doc, &all, &scenario, "held")
}

fn run_race(calls: &[&str], env: &Env, st: &mut Stats) -> CaseResult {
    let scenario = json!({"mode": "race", "calls": calls});
    st.eval();
    st.hist(&format!("race:{}threads", calls.len()));
    let doc = run_child_json(&scenario, env, st)?;
    st.sample(|| json!({"scenario": scenario, "observed": doc["b"]}));
    let all: Vec<String> = calls.iter().map(|s| s.to_string()).collect();
    let mut distinct = all.clone();
    distinct.sort();
    distinct.dedup();
    if distinct.len() >= 2 {
        st.nontrivial(&format!("race:{:?}", calls));
    }
    check_calls(&doc, &all, &scenario, "race")
}

/// ids of the handlers visible in a result such as Ok([[n1,n1,n2],[n2,n3,n4]])
fn handler_ids(result: &str) -> Option<Vec<i64>> {
    let inner = result.strip_prefix("Ok(")?.strip_suffix(')')?;
    let mut ids = vec![];
    let bytes: Vec<char> = inner.chars().collect();
    let mut i = 0;
    // every "[n<id>," that starts a handler echo list
    while i + 2 < bytes.len() {
        if bytes[i] == '[' && bytes[i + 1] == 'n' && bytes[i + 2].is_ascii_digit() {
            let mut j = i + 2;
            let mut num = String::new();
            while j < bytes.len() && bytes[j].is_ascii_digit() {
                num.push(bytes[j]);
                j += 1;
            }
            ids.push(num.parse().ok()?);
            i = j;
        } else {
            i += 1;
        }
    }
    Some(ids)
}

fn judge_reg_result(kind: &str, text_idx: usize, result: &str, scenario: &J) -> CaseResult {
    if text_idx == 3 {
        if result.starts_with("Err(") {
            return Ok(());
        }
        if result.starts_with("PANIC") {
            return Err(Failure::new(format!("panic:{}", panic_file(&result[6..])), format!("evaluation during re-registration panicked: {}", result), scenario.clone()));
        }
        return Err(Failure::new(
            format!("accepted-malformed:during-re-registration:{}", kind),
            format!("`{}` is malformed whenever `hi` is a registered {} operator (which it was before, during and after the evaluation), yet an evaluation that ran while `hi` was being re-registered returned {}", texts_for(kind)[3], kind, result),
            scenario.clone(),
        ));
    }
    if text_idx == 2 {
        // `n += 1 ; <one use of hi with n>` on a fresh context with n = 0
        let ok = [1, 2].iter().any(|id| {
            let want = match kind {
                "infix" => format!("Ok([n{},n1,n2])", id),
                _ => format!("Ok([n{},n1])", id),
            };
            result == want
        });
        if ok {
            return Ok(());
        }
        if result.starts_with("PANIC") {
            return Err(Failure::new(format!("panic:{}", panic_file(&result[6..])), format!("evaluation during re-registration panicked: {}", result), scenario.clone()));
        }
        return Err(Failure::new(
            format!("replayed-or-torn:{}", kind),
            format!("`{}` on a fresh context (n = 0) evaluated to {} while `hi` was being re-registered; a single evaluation increments n once and uses one handler", texts_for(kind)[2], result),
            scenario.clone(),
        ));
    }
    let uses = if text_idx == 0 { 1 } else { 2 };
    if result.starts_with("PANIC") {
        return Err(Failure::new(format!("panic:{}", panic_file(&result[6..])), format!("evaluation during re-registration panicked: {}", result), scenario.clone()));
    }
    let ids = handler_ids(result).unwrap_or_default();
    let well_formed = ids.len() == uses && ids.iter().all(|i| *i == 1 || *i == 2);
    if !well_formed {
        return Err(Failure::new(
            format!("registration-gap:{}", kind),
            format!("an evaluation of `{}` that ran while `hi` was being re-registered returned {} - neither the old nor the new handler's result", texts_for(kind)[text_idx], result),
            scenario.clone(),
        ));
    }
    if uses == 2 && ids[0] != ids[1] {
        return Err(Failure::new(
            format!("torn-registration:{}", kind),
            format!("one evaluation of `{}` used handler {} for the first use and handler {} for the second: {} - the registration took effect in the middle of the evaluation", texts_for(kind)[text_idx], ids[0], ids[1], result),
            scenario.clone(),
        ));
    }
    Ok(())
}

fn run_prec_race(threads: usize, iters: u64, env: &Env, st: &mut Stats) -> CaseResult {
    let scenario = json!({"mode": "regrace", "kind": "infix-precedence", "text": 0, "threads": threads, "iters": iters, "directed": false});
    st.eval();
    st.hist("regrace:infix-precedence:free");
    let doc = run_child_json(&scenario, env, st)?;
    st.sample(|| json!({"scenario": scenario, "observed": doc}));
    let mut allowed = vec![];
    for (p, _) in [(105i64, 1), (125i64, 2)] {
        let mut tab = crate::syntax::OpTable::builtin();
        tab.infix.insert("hi".into(), (p, false));
        let (r, _, _) = crate::syntax::parse_text(PREC_TEXT, &tab).map_err(|e| Failure::new("harness-bug:prec", e, scenario.clone()))?;
        allowed.push(format!("Parsed({})", r.sexp()));
    }
    let mut torn: Option<Failure> = None;
    for t in doc["per_thread"].as_array().cloned().unwrap_or_default() {
        let seen = match t.as_array() {
            Some(s) => s.clone(),
            None => return Err(Failure::new("deadlock:regrace:infix-precedence", format!("a parsing thread never returned; output: {}", doc), scenario)),
        };
        let mut both = 0;
        for r in &seen {
            let r = r.as_str().unwrap_or("");
            if r.starts_with("PANIC") {
                return Err(Failure::new(format!("panic:{}", panic_file(&r[6..])), format!("parse during re-registration panicked: {}", r), scenario.clone()));
            }
            if allowed.iter().any(|a| a == r) {
                both += 1;
            } else if r.starts_with("Parsed(") {
                torn.get_or_insert(Failure::new(
                    "torn-registration:infix-precedence",
                    format!("one parse of `{}` used the precedence 105 for one occurrence of `hi` and 125 for the other: {} - neither of the two sequential trees", PREC_TEXT, r),
                    scenario.clone(),
                ));
            } else {
                return Err(Failure::new("registration-gap:infix-precedence", format!("a parse of `{}` during re-registration gave {}", PREC_TEXT, r), scenario.clone()));
            }
        }
        if both >= 2 {
            st.nontrivial(&format!("regrace:infix-precedence:{}", threads));
        }
    }
    st.hist_add("regrace:evaluations", doc["evaluations"].as_u64().unwrap_or(0));
    match torn {
        Some(f) => Err(f),
        None => Ok(()),
    }
}

pub fn run_regrace(kind: &str, text_idx: usize, threads: usize, iters: u64, directed: bool, env: &Env, st: &mut Stats) -> CaseResult {
    if kind == "infix-precedence" {
        return run_prec_race(threads, iters, env, st);
    }
    let scenario = json!({"mode": "regrace", "kind": kind, "text": text_idx, "threads": threads, "iters": iters, "directed": directed});
    st.eval();
    st.hist(&format!("regrace:{}:{}", kind, if directed { "directed" } else { "free" }));
    let doc = run_child_json(&scenario, env, st)?;
    st.sample(|| json!({"scenario": scenario, "observed": doc}));
    if directed {
        let r = match doc["results"][0].as_str() {
            Some(r) => r.to_string(),
            None => return Err(Failure::new(format!("deadlock:regrace:{}", kind), format!("the evaluation never returned; output: {}", doc), scenario)),
        };
        st.nontrivial(&format!("directed:{}:{}", kind, text_idx));
        return judge_reg_result(kind, text_idx, &r, &scenario);
    }
    let mut first_torn: Option<Failure> = None;
    for t in doc["per_thread"].as_array().cloned().unwrap_or_default() {
        let seen = match t.as_array() {
            Some(s) => s.clone(),
            None => return Err(Failure::new(format!("deadlock:regrace:{}", kind), format!("an evaluator thread never returned; output: {}", doc), scenario)),
        };
        let mut ids_seen = std::collections::BTreeSet::new();
        for r in &seen {
            let r = r.as_str().unwrap_or("");
            if let Some(last) = r.strip_prefix("FINAL ") {
                if text_idx == 3 {
                    judge_reg_result(kind, 3, last, &scenario)?;
                    continue;
                }
                let want = doc["final_id"].as_i64().unwrap_or(0);
                let ids = handler_ids(last).unwrap_or_default();
                if ids.is_empty() || ids.iter().any(|i| *i != want) {
                    return Err(Failure::new(
                        format!("stale-registration:{}", kind),
                        format!("after the last register call for `hi` had returned (handler {}), a thread that had used `hi` before still evaluated `{}` to {}", want, texts_for(kind)[text_idx], last),
                        scenario.clone(),
                    ));
                }
                continue;
            }
            handler_ids(r).unwrap_or_default().into_iter().for_each(|i| {
                ids_seen.insert(i);
            });
            if let Err(f) = judge_reg_result(kind, text_idx, r, &scenario) {
                if f.sig.starts_with("torn-registration") {
                    first_torn.get_or_insert(f);
                } else {
                    return Err(f);
                }
            }
        }
        if ids_seen.len() >= 2 {
            st.nontrivial(&format!("regrace:{}:{}:{}", kind, text_idx, threads));
        }
    }
    st.hist_add("regrace:evaluations", doc["evaluations"].as_u64().unwrap_or(0));
    match first_torn {
        Some(f) => Err(f),
        None => Ok(()),
    }
}

const A_KINDS: [&str; 6] = ["parse:1+2", "exec:1+2", "reg_fn:fresh", "reg_prefix:fresh", "reg_infix:+", "reg_postfix:fresh"];
const REG_KINDS: [&str; 5] = ["function", "prefix", "infix", "postfix", "infix-precedence"];

fn tolerate_known(env: &Env, st: &mut Stats, r: CaseResult) -> CaseResult {
    match r {
        Err(f) if env.is_known(&f.sig) => {
            *st.known_hits.entry(f.sig.clone()).or_insert(0) += 1;
            Ok(())
        }
        other => other,
    }
}

fn fixed(env: &Env, st: &mut Stats) -> CaseResult {
    let mut i = 0u64;
    // directed matrix: every first-call kind x every stage, all call kinds as B
    let all_b: Vec<&str> = CALLS.to_vec();
    for a in A_KINDS {
        for stage in 1..=3u64 {
            i += 1;
            if env.mine(i) {
                run_held(a, stage, &all_b, env, st)?;
            }
        }
    }
    // directed torn-registration scenario and a free race per registry kind
    for k in REG_KINDS {
        for text_idx in 0..4 {
            i += 1;
            if env.mine(i) && k != "infix-precedence" && text_idx < 2 {
                let r = run_regrace(k, text_idx, 1, 0, true, env, st);
                tolerate_known(env, st, r)?;
            }
            i += 1;
            if env.mine(i) {
                let r = run_regrace(k, text_idx, 6, env.tier.pick(20_000, 200_000), false, env, st);
                tolerate_known(env, st, r)?;
            }
        }
    }
    // storms of concurrent registrations of all four kinds (lock-order problems between the tables)
    for threads in [2usize, 4, 8] {
        i += 1;
        if env.mine(i) {
            run_regstorm(threads, env.tier.pick(300_000, 2_000_000), env, st)?;
        }
    }
    // first registrations of fresh word operators racing with parses of the same spelling
    for kind in ["prefix", "infix", "postfix"] {
        for readers in [1usize, 3] {
            i += 1;
            if env.mine(i) {
                run_freshrace(kind, readers, env.tier.pick(30_000, 300_000), env, st)?;
            }
        }
    }
    Ok(())
}

fn case(src: &mut Src, st: &mut Stats, env: &Env) -> CaseResult {
    let r = match src.weighted(&[4, 4, 3]) {
        0 => {
            let a = *src.choose(&CALLS);
            let stage = 1 + src.pick(3) as u64;
            let n = 1 + src.pick(8);
            let bs: Vec<&str> = (0..n).map(|_| *src.choose(&CALLS)).collect();
            run_held(a, stage, &bs, env, st)
        }
        1 => {
            let n = 2 + src.pick(15);
            let calls: Vec<&str> = (0..n).map(|_| *src.choose(&CALLS)).collect();
            run_race(&calls, env, st)
        }
        _ => {
            let k = *src.choose(&REG_KINDS);
            let text_idx = src.pick(4);
            let threads = 2 + src.pick(7);
            run_regrace(k, text_idx, threads, 2000 + 2000 * src.pick(4) as u64, false, env, st)
        }
    };
    tolerate_known(env, st, r)
}

pub fn replay(case: &J, st: &mut Stats, env: &Env) -> CaseResult {
    match case["mode"].as_str().unwrap_or("") {
        "held" => {
            let bs: Vec<String> = case["b"].as_array().map(|a| a.iter().map(|x| x.as_str().unwrap_or("").to_string()).collect()).unwrap_or_default();
            let refs: Vec<&str> = bs.iter().filter_map(|s| CALLS.iter().find(|c| **c == s.as_str()).copied()).collect();
            let a = CALLS.iter().find(|c| Some(**c) == case["a"].as_str()).copied().unwrap_or("parse:1+2");
            run_held(a, case["stage"].as_u64().unwrap_or(1), &refs, env, st)
        }
        "regstorm" => run_regstorm(case["threads"].as_u64().unwrap_or(4) as usize, case["iters"].as_u64().unwrap_or(20_000), env, st),
        "freshrace" => run_freshrace(
            ["prefix", "infix", "postfix"].iter().find(|k| Some(**k) == case["kind"].as_str()).copied().unwrap_or("prefix"),
            case["readers"].as_u64().unwrap_or(2) as usize,
            case["words"].as_u64().unwrap_or(30_000),
            env,
            st,
        ),
        "race" => {
            let cs: Vec<String> = case["calls"].as_array().map(|a| a.iter().map(|x| x.as_str().unwrap_or("").to_string()).collect()).unwrap_or_default();
            let refs: Vec<&str> = cs.iter().filter_map(|s| CALLS.iter().find(|c| **c == s.as_str()).copied()).collect();
            run_race(&refs, env, st)
        }
        _ => {
            let k = REG_KINDS.iter().find(|c| Some(**c) == case["kind"].as_str()).copied().unwrap_or("infix");
            run_regrace(
                k,
                case["text"].as_u64().unwrap_or(0) as usize % 4,
                case["threads"].as_u64().unwrap_or(4) as usize,
                case["iters"].as_u64().unwrap_or(2000),
                case["directed"].as_bool().unwrap_or(false),
                env,
                st,
            )
        }
    }
}
