//! C04 — runtime faults surface as Err: no panic, no silently wrapped number, in both profiles.
use crate::gen_sem::*;
use crate::model::{Ev, R};
use crate::props::sem::*;
use crate::runner::*;
use crate::src::Src;
use serde_json::{json, Value as J};

pub static PROP: Prop = Prop {
    id: "C04",
    rule: "cases: (a) exhaustive table, in the dev AND the release build: every arithmetic/bit operator (+ - * / % | ^ & << >>) and its compound-assignment form (x = a; x op= b; x) x every ordered pair of a 46-value edge palette (0, -0, +-1, +-Decimal::MAX, MAX-1, MAX/2+-1, 10^-28, 28-place fractions, i64::MIN/MAX, +-2^63, 2^63+-1, 2^64, shift counts -1, 0, 1, 62, 63, 64, 65, 2^31, non-integral and out-of-range bit operands, None, bool, string, list), postfix ++/--, prefix -, and min/max/sum/mul over 0-3 palette arguments; (b) generated trees of depth <= 3 whose leaves come from the edge palette 2/3 of the time, same cases in both builds (paired seeds). Oracle: checked reference arithmetic on exact big integers: division/remainder by zero, |exact result| >= 2^96 - 1/2, shift count outside 0..=63, non-integral or non-i64 bit operand, min()/max() without arguments and every type mismatch must be Err; otherwise the exact value; never a panic. Non-trivial: the reference outcome is a numeric fault, or a value computed from at least one edge literal; distinct by (operator/leaf skeleton, fault kind, build profile).",
    assumptions: &[
        "a magnitude between MAX and MAX + 1/2 and in-range results that are not exactly representable may be rounded or rejected (not pinned); sum()/mul() without arguments may return the identity",
        "odd shards run the debug binary (overflow checks on), even shards the release binary, with the same case seeds",
    ],
    budget,
    setup: crate::handlers::setup,
    case,
    fixed,
    replay: Some(replay),
    breadcrumb: false,
    fuzz: &[Fuzz { target: "choice", choice: true, runs: 300000, max_len: 480 }],
};

fn budget(t: Tier) -> Budget {
    Budget {
        cases: t.pick(1_500_000, 20_000_000),
        max_len: 120,
        shards: 16,
        dual_profile: true,
    }
}

fn cfg() -> SemCfg {
    SemCfg {
        max_depth: 3,
        edge: true,
        ill_typed_16: 3,
        observables: false,
        assignments: false,
    }
}

const EDGE: [&str; 12] = [
    "79228162514264337593543950335", "79228162514264337593543950334", "39614081257132168796771975168", "0.0000000000000000000000000001", "9223372036854775807", "9223372036854775808",
    "9223372036854775809", "18446744073709551616", "64", "65", "7.9228162514264337593543950335", "0.9999999999999999999999999999",
];

fn has_edge(r: &R) -> bool {
    match r {
        R::Num(t) => EDGE.contains(&t.as_str()),
        R::Call(_, a) | R::List(a) | R::Stmts(a) => a.iter().any(has_edge),
        R::Map(m) => m.iter().any(|(k, v)| has_edge(k) || has_edge(v)),
        R::Prefix(_, x) | R::Postfix(x, _) => has_edge(x),
        R::Infix(_, l, r) | R::NotInfix(_, l, r) => has_edge(l) || has_edge(r),
        R::Cond(c, a, b) => has_edge(c) || has_edge(a) || has_edge(b),
        _ => false,
    }
}

fn nontrivial(tree: &R, ev: &Ev) -> bool {
    match ev {
        Ev::Err(why) => matches!(why.as_str(), "overflow" | "divide-by-zero" | "shift-count" | "not-an-i64" | "empty-aggregate"),
        Ev::Val(_) => has_edge(tree),
        _ => false,
    }
}

fn case(src: &mut Src, st: &mut Stats, _env: &Env) -> CaseResult {
    st.eval();
    let c = cfg();
    let sc = gen_context(src, &c);
    let ty = *src.choose(&[Ty::Num, Ty::Num, Ty::Bool, Ty::Any]);
    let tree = gen_expr(src, &c, &sc, ty, 0);
    st.hist(&format!("profile:{}", PROFILE));
    check_value(&tree, &sc, st, |t, e| nontrivial(t, e))
}

pub const PALETTE: [&str; 46] = [
    // strings that spell numbers are strings
    "\"2\"", "\"0.5\"",
    "0", "(- 0)", "0.0", "1", "(- 1)", "2", "3", "79228162514264337593543950335", "(- 79228162514264337593543950335)", "79228162514264337593543950334",
    "39614081257132168796771975168", "39614081257132168796771975167", "0.0000000000000000000000000001", "(- 0.0000000000000000000000000001)", "7.9228162514264337593543950335",
    "0.9999999999999999999999999999", "1.0000000000000000000000000001", "9223372036854775807", "(- 9223372036854775808)", "9223372036854775808", "(- 9223372036854775809)",
    "9223372036854775809", "18446744073709551616", "4294967296", "2147483648", "62", "63", "64", "65", "(- 63)", "(- 64)", "2.0", "2.5", "3.000", "0.5", "10", "100000000000000",
    "u0", "true", "\"a\"", "[]", "[1]", "0.1", "281474976710656",
];
pub const OPS: [&str; 10] = ["+", "-", "*", "/", "%", "|", "^", "&", "<<", ">>"];

fn table_case(text: &str, tab: &crate::syntax::OpTable, st: &mut Stats) -> CaseResult {
    let (tree, _, _) = crate::syntax::parse_text(text, tab).map_err(|e| Failure::new("harness-bug:table", format!("{}: {}", text, e), json!({"text": text})))?;
    st.eval();
    st.hist(&format!("table:{}", PROFILE));
    check_value(&tree, &SemCtx::default(), st, |t, e| nontrivial(t, e) || matches!(e, Ev::Err(_)))
}

fn fixed(env: &Env, st: &mut Stats) -> CaseResult {
    let tab = sem_table();
    // both members of a shard pair enumerate the same items, each in its own build
    let (pair, pairs) = (env.shard / 2, (env.of / 2).max(1));
    let mine = |i: u64| (i % pairs as u64) as usize == pair;
    let mut i = 0u64;
    for op in OPS {
        for a in PALETTE {
            for b in PALETTE {
                i += 1;
                if !mine(i) {
                    continue;
                }
                table_case(&format!("{} {} {}", a, op, b), &tab, st)?;
                table_case(&format!("x = {} ; x {}= {} ; x", a, op, b), &tab, st)?;
            }
        }
    }
    for a in PALETTE {
        i += 1;
        if !mine(i) {
            continue;
        }
        for t in [format!("{} ++", a), format!("{} --", a), format!("- {}", a), format!("+ {}", a), format!("x = {} ; x ++", a)] {
            table_case(&t, &tab, st)?;
        }
        for f in ["min", "max", "sum", "mul"] {
            table_case(&format!("{}()", f), &tab, st)?;
            table_case(&format!("{}({})", f, a), &tab, st)?;
            for b in PALETTE {
                table_case(&format!("{}({}, {})", f, a, b), &tab, st)?;
            }
            table_case(&format!("{}({}, 2, (- 2))", f, a), &tab, st)?;
            table_case(&format!("{}(10000000000000000, 10000000000000000, {})", f, a), &tab, st)?;
        }
    }
    st.set_extra("exhaustive_operator_x_palette_table", json!(true));
    st.set_extra("profiles", json!(["dev", "release"]));
    Ok(())
}

fn replay(case: &J, st: &mut Stats, _env: &Env) -> CaseResult {
    st.eval();
    let (tree, sc) = tree_from_case(case)?;
    check_value(&tree, &sc, st, |t, e| nontrivial(t, e))
}
