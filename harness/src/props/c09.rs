//! C09 — number literals and decimal arithmetic are exact.
use crate::bigdec::{Big, BigDec};
use crate::eng::{exec_text, show};
use crate::model::{apply_infix, Stop, V};
use crate::runner::*;
use crate::src::Src;
use expression_engine::Value;
use serde_json::{json, Value as J};

pub static PROP: Prop = Prop {
    id: "C09",
    rule: "cases: (1) a decimal literal digits[.digits] with 1-28 significant digits, scale 0-28, leading/trailing zeros, mantissas around 2^32, 2^64, 2^96-1: execute must give Number with exactly the literal's mantissa and scale, also after `a = first ; a = second ; a` (the second literal's); (2) pairs (a, b) of such literals, optionally negated, under + - * % < <= > >= == != and the compound forms += -= *= %=, biased to equal values at different scales, values differing in the last place, classic binary-float traps (0.1, 0.2, 0.3, 1.10, 0.7, 4.35) and results on the range boundary: the result must equal the exact big-integer result whenever that is representable (96-bit mantissa, scale <= 28); (3) malformed literals (1.2.3, 1e5, 1e+5, 1E-2, 1..2, integers >= 2^96): execute must be Err. Non-trivial: operands with different scales, or >= 20 significant digits, or a fractional operand; distinct by (operator, digit counts, scales, relation/outcome class).",
    assumptions: &[
        "the exact oracle is the harness's own big-integer decimal arithmetic (unit-tested)",
        "a result that is in range but needs rounding, and a literal with more than 28 significant digits, are not asserted (not pinned by the statement); overflow is C04's subject",
    ],
    budget,
    setup: noop_setup,
    case,
    fixed,
    replay: Some(replay),
    breadcrumb: false,
    fuzz: &[Fuzz { target: "choice", choice: true, runs: 300000, max_len: 160 }],
};

fn budget(t: Tier) -> Budget {
    Budget {
        cases: t.pick(5_000_000, 60_000_000),
        max_len: 40,
        shards: 16,
        dual_profile: false,
    }
}

const TRAPS: [&str; 14] = ["0.1", "0.2", "0.3", "1.10", "0.7", "4.35", "1.1", "2.2", "3.3", "0.01", "100", "1.005", "0.30", "1e0"];

fn digits(src: &mut Src, n: usize, first_nonzero: bool) -> String {
    let mut s = String::new();
    for i in 0..n {
        let lo = if i == 0 && first_nonzero { 1 } else { 0 };
        s.push((b'0' + src.range(lo, 9) as u8) as char);
    }
    s
}

/// a valid literal with at most 28 digits in total
fn gen_literal(src: &mut Src) -> String {
    match src.pick(8) {
        0 => {
            let t = *src.choose(&TRAPS);
            if t.contains('e') {
                "1.0".to_string()
            } else {
                t.to_string()
            }
        }
        1 => {
            // around interesting binary boundaries
            let base: u128 = *src.choose(&[1u128 << 32, 1u128 << 64, (1u128 << 96) - 1, 1u128 << 63, 1u128 << 53, 10u128.pow(27)]);
            let v = base.wrapping_add(src.range(-2, 2) as u128).min((1u128 << 96) - 1);
            let text = v.to_string();
            // optionally move the decimal point
            let sc = src.pick(text.len().min(28) + 1);
            if sc == 0 || text.len() > 28 {
                text
            } else if sc >= text.len() {
                format!("0.{}{}", "0".repeat(sc - text.len()), text)
            } else {
                format!("{}.{}", &text[..text.len() - sc], &text[text.len() - sc..])
            }
        }
        2 => {
            // few significant digits, padded with trailing zeros (products whose raw scale exceeds 28
            // but whose value fits)
            let int = src.pick(4);
            let sig = 1 + src.pick(3);
            let zeros = src.pick(28 - int - sig + 1);
            let nz = true;
            let ip = if int == 0 { "0".to_string() } else { digits(src, int, nz) };
            format!("{}.{}{}", ip, digits(src, sig, false), "0".repeat(zeros))
        }
        _ => {
            let total = 1 + src.pick(28);
            let frac = src.pick(total + 1).min(28);
            let int = total - frac;
            let nz = !src.chance(1, 6);
            let ip = if int == 0 { "0".to_string() } else { digits(src, int, nz) };
            if frac == 0 {
                ip
            } else {
                format!("{}.{}", ip, digits(src, frac, false))
            }
        }
    }
}

fn gen_pair(src: &mut Src) -> (String, String) {
    let a = gen_literal(src);
    let b = match src.pick(5) {
        0 => {
            // same value, other scale
            let extra = src.pick(4);
            if a.contains('.') {
                format!("{}{}", a, "0".repeat(extra))
            } else {
                format!("{}.{}", a, "0".repeat(extra + 1))
            }
        }
        1 => {
            // differs in the last place
            let mut chars: Vec<char> = a.chars().collect();
            if let Some(last) = chars.iter_mut().rev().find(|c| c.is_ascii_digit()) {
                *last = if *last == '9' { '8' } else { ((*last as u8) + 1) as char };
            }
            chars.into_iter().collect()
        }
        _ => gen_literal(src),
    };
    // keep total digits of each <= 28 (the same-value variant can exceed)
    let ok = |s: &str| s.chars().filter(|c| c.is_ascii_digit()).count() <= 28;
    if ok(&b) {
        (a, b)
    } else {
        (a.clone(), a)
    }
}

fn check_literal(text: &str, st: &mut Stats) -> CaseResult {
    let case = json!({"kind": "literal", "text": text});
    let expect = BigDec::from_literal(text).expect("generated literal is valid");
    let ndig = text.chars().filter(|c| c.is_ascii_digit()).count();
    st.hist("literal");
    if expect.scale > 0 || ndig >= 20 {
        st.nontrivial(&format!("lit:{}:{}", ndig, expect.scale));
    }
    let got = exec_text(text);
    match &got {
        Ok(Ok(Value::Number(d))) => {
            let g = BigDec::from_decimal(d);
            if g.mant == expect.mant && g.scale == expect.scale && !g.neg {
                Ok(())
            } else if g.eq_value(&expect) {
                Err(Failure::new("literal:scale", format!("literal {} evaluated to {} (digits/scale not preserved)", text, g.to_text()), case))
            } else {
                Err(Failure::new("literal:value", format!("literal {} evaluated to {}", text, g.to_text()), case))
            }
        }
        other => Err(Failure::new("literal:rejected", format!("literal {} gave {}", text, show(other)), case)),
    }
}

/// a variable re-assigned with a numerically equal literal of another scale must hold the new digits
fn check_reassign(first: &str, second: &str, st: &mut Stats) -> CaseResult {
    let text = format!("a = {} ; a = {} ; a", first, second);
    let case = json!({"kind": "reassign", "first": first, "second": second});
    let expect = BigDec::from_literal(second).expect("valid literal");
    st.hist("literal-through-reassignment");
    st.nontrivial(&format!("reassign:{}:{}", BigDec::from_literal(first).map(|d| d.scale).unwrap_or(0), expect.scale));
    match exec_text(&text) {
        Ok(Ok(Value::Number(d))) => {
            let g = BigDec::from_decimal(&d);
            if g.mant == expect.mant && g.scale == expect.scale {
                Ok(())
            } else {
                Err(Failure::new("literal:scale-lost-in-assignment", format!("{} evaluated to {} (the digits of the literal assigned last are not preserved)", text, g.to_text()), case))
            }
        }
        other => Err(Failure::new("literal:rejected", format!("{} gave {}", text, show(&other)), case)),
    }
}

const OPS: [&str; 10] = ["+", "-", "*", "%", "<", "<=", ">", ">=", "==", "!="];

fn operand_text(lit: &str, neg: bool) -> String {
    if neg {
        format!("(- {})", lit)
    } else {
        lit.to_string()
    }
}

fn check_pair(a: &str, na: bool, b: &str, nb: bool, op: &str, compound: bool, st: &mut Stats) -> CaseResult {
    let case = json!({"kind": "pair", "a": a, "neg_a": na, "b": b, "neg_b": nb, "op": op, "compound": compound});
    let mut x = BigDec::from_literal(a).unwrap();
    let mut y = BigDec::from_literal(b).unwrap();
    if na {
        x = x.negated();
    }
    if nb {
        y = y.negated();
    }
    let text = if compound {
        format!("x = {}; x {}= {}; x", operand_text(a, na), op, operand_text(b, nb))
    } else {
        format!("{} {} {}", operand_text(a, na), op, operand_text(b, nb))
    };
    let expect = apply_infix(op, V::Num(x.clone()), V::Num(y.clone()));
    let da = a.chars().filter(|c| c.is_ascii_digit()).count();
    let db = b.chars().filter(|c| c.is_ascii_digit()).count();
    let class = match &expect {
        Ok(V::Bool(v)) => format!("bool:{}", v),
        Ok(_) => "value".to_string(),
        Err(Stop::Err(e)) => format!("err:{}", e),
        Err(Stop::Unspec(e)) => format!("unspec:{}", e),
        Err(Stop::Fault) => "fault".into(),
    };
    st.hist(&format!("op:{}{}", op, if compound { "=" } else { "" }));
    st.hist(&format!("outcome:{}", class.split(':').next().unwrap()));
    if (x.scale != y.scale || da >= 20 || db >= 20 || x.scale > 0 || y.scale > 0) && !class.starts_with("unspec") {
        st.nontrivial(&format!("{}{}:{}:{}:{}:{}:{}", op, compound, da, db, x.scale, y.scale, class));
    }
    let got = exec_text(&text);
    if let Err(p) = &got {
        // a panic is never acceptable, whatever the expected outcome
        return Err(Failure::new(format!("{}:panic", op), format!("{} panicked: {}", text, p), case));
    }
    match (&expect, &got) {
        (Ok(ev), Ok(Ok(v))) => {
            let g = V::from_value(v);
            if g.eq_value(ev) && g.type_name() == ev.type_name() {
                Ok(())
            } else {
                Err(Failure::new(format!("{}:exact", op), format!("{} = {} but the exact result is {}", text, g.key(), ev.key()), case))
            }
        }
        (Ok(ev), Ok(Err(e))) => Err(Failure::new(
            format!("{}:rejected", op),
            format!("{} = Err({}) but the exact result {} is representable", text, e, ev.key()),
            case,
        )),
        (Err(Stop::Err(_)), Ok(Ok(v))) => Err(Failure::new(
            format!("{}:should-fail", op),
            format!("{} = {} but an error is required", text, V::from_value(v).key()),
            case,
        )),
        _ => Ok(()),
    }
}

fn check_malformed(text: &str, st: &mut Stats) -> CaseResult {
    let case = json!({"kind": "malformed", "text": text});
    st.hist("malformed");
    st.nontrivial(&format!("malformed:{}", text.chars().map(|c| if c.is_ascii_digit() { '9' } else { c }).collect::<String>()));
    match exec_text(text) {
        Ok(Err(_)) => Ok(()),
        Ok(Ok(v)) => Err(Failure::new(
            "literal:malformed-accepted",
            format!("malformed literal {} evaluated to {}", text, V::from_value(&v).key()),
            case,
        )),
        Err(p) => Err(Failure::new("literal:panic", format!("malformed literal {} panicked: {}", text, p), case)),
    }
}

fn gen_malformed(src: &mut Src) -> String {
    let mut base = gen_literal(src);
    let n1 = 1 + src.pick(3);
    if src.chance(1, 3) {
        // a long base: its digits fill the 96-bit mantissa before the junk is reached
        let int = 20 + src.pick(12);
        let frac = src.pick(12);
        base = digits(src, int, true);
        if frac > 0 {
            base = format!("{}.{}", base, digits(src, frac, false));
        }
    }
    match src.pick(7) {
        0 => format!("{}.{}", if base.contains('.') { base.clone() } else { format!("{}.5", base) }, digits(src, n1, false)),
        1 => format!("{}e{}", base, digits(src, n1, false)),
        2 => format!("{}e+{}", base, digits(src, 1, false)),
        3 => format!("{}E-{}", base, digits(src, 1, false)),
        4 => {
            let ip = base.split('.').next().unwrap().to_string();
            format!("{}..{}", ip, digits(src, n1, false))
        }
        5 => {
            // integer >= 2^96
            let extra = src.pick(6);
            let v = Big::from_u128(1u128 << 96).add(&Big::from_u128(src.u64() as u128)).mul(&Big::pow10(extra as u32));
            v.to_dec_string()
        }
        _ => format!("{}e", base),
    }
}

fn fixed(env: &Env, st: &mut Stats) -> CaseResult {
    if env.shard != 0 {
        return Ok(());
    }
    for t in ["0", "00", "0.0", "1.10", "0.1", "007.50", "79228162514264337593543950335", "7.9228162514264337593543950335", "0.0000000000000000000000000001", "1234567890123456789012345678"] {
        st.eval();
        check_literal(t, st)?;
    }
    for (a, b, op, want) in [("0.1", "0.2", "+", "0.3"), ("1.10", "2.5", "*", "2.75"), ("4.35", "100", "*", "435"), ("0.7", "0.1", "+", "0.8"), ("7", "3", "%", "1")] {
        st.eval();
        check_pair(a, false, b, false, op, false, st)?;
        st.eval();
        check_pair(a, false, b, false, op, true, st)?;
        let _ = want;
    }
    st.eval();
    check_pair("7", true, "3", false, "%", false, st)?;
    for t in ["1.2.3", "1e5", "1e+5", "1E-2", "1..2", "79228162514264337593543950336", "123456789012345678901234567890", "1e", "0e.3"] {
        st.eval();
        check_malformed(t, st)?;
    }
    Ok(())
}

fn case(src: &mut Src, st: &mut Stats, _env: &Env) -> CaseResult {
    st.eval();
    match src.weighted(&[2, 8, 1]) {
        0 => {
            let t = gen_literal(src);
            st.sample(|| json!({"kind": "literal", "text": t}));
            if src.chance(1, 3) {
                // the same value with other trailing zeros first, then the literal itself
                let extra = 1 + src.pick(3);
                let first = if t.contains('.') { format!("{}{}", t, "0".repeat(extra)) } else { format!("{}.{}", t, "0".repeat(extra)) };
                if first.chars().filter(|c| c.is_ascii_digit()).count() <= 28 {
                    check_reassign(&first, &t, st)?;
                    return check_reassign(&t, &first, st);
                }
            }
            check_literal(&t, st)
        }
        1 => {
            let (a, b) = gen_pair(src);
            let op = *src.choose(&OPS);
            let na = src.chance(1, 4);
            let nb = src.chance(1, 4);
            let compound = matches!(op, "+" | "-" | "*" | "%") && src.chance(1, 4);
            st.sample(|| json!({"kind": "pair", "a": a, "b": b, "op": op, "neg_a": na, "neg_b": nb, "compound": compound}));
            check_pair(&a, na, &b, nb, op, compound, st)
        }
        _ => {
            let t = gen_malformed(src);
            st.sample(|| json!({"kind": "malformed", "text": t}));
            check_malformed(&t, st)
        }
    }
}

fn replay(case: &J, st: &mut Stats, _env: &Env) -> CaseResult {
    st.eval();
    match case["kind"].as_str().unwrap_or("") {
        "literal" => check_literal(case["text"].as_str().unwrap_or("0"), st),
        "reassign" => check_reassign(case["first"].as_str().unwrap_or("0"), case["second"].as_str().unwrap_or("0"), st),
        "malformed" => check_malformed(case["text"].as_str().unwrap_or("1e5"), st),
        _ => check_pair(
            case["a"].as_str().unwrap_or("0"),
            case["neg_a"].as_bool().unwrap_or(false),
            case["b"].as_str().unwrap_or("0"),
            case["neg_b"].as_bool().unwrap_or(false),
            OPS.iter().find(|o| Some(**o) == case["op"].as_str()).copied().unwrap_or("+"),
            case["compound"].as_bool().unwrap_or(false),
            st,
        ),
    }
}
