//! C03 — built-in operators and functions compute the documented values.
use crate::gen_sem::*;
use crate::model::{Ev, R};
use crate::props::sem::*;
use crate::runner::*;
use crate::src::Src;
use serde_json::{json, Value as J};

pub static PROP: Prop = Prop {
    id: "C03",
    rule: "cases: typed expression trees (depth <= 5) over every built-in infix (non-assignment), prefix and postfix operator, min/max/sum/mul, AND/OR, `not OP`, conditionals, lists, maps, variables of every type and constant context functions (by bare name and by call) bound in a generated context; leaves: small and fractional numbers, negatives, zero, equal values at different scales, i64 and 96-bit extremes, booleans, strings (empty, ASCII, multi-byte, prefix/suffix related), lists (empty, nested, containing an element equal to the probe), maps, None (unbound name); a type plan makes 3/4 of operator instances well-typed and 1/4 arbitrary; rendered with every compound operand parenthesised (grouping independent of precedence); a sixth of the cases are chains of 2-3 such expressions as statements (the value is the last one's), a sixth of the conditionals over booleans use the condition itself as a branch, a quarter of the maps repeat a key expression; a sixth of the cases contains assignments inside expressions (list elements, map keys and values, arguments), whose effect later elements read. Oracle: an independent reference evaluator on exact big-integer decimals: value and variant must agree, a wrong operand type must give Err; results the documentation does not pin are `unspecified` (only no-panic asserted). Plus the exhaustive table: every binary operator x every ordered pair of a 31-value palette. Non-trivial: >= 2 operators/calls and the reference outcome is a value or an error (not unspecified); distinct by (operator/leaf-type skeleton, outcome class).",
    assumptions: &[
        "unspecified (not asserted beyond no panic): AND/OR list with a non-bool after the deciding element, sum()/mul() without arguments, results that need rounding, quotients that do not terminate within 28 places (those are checked separately in the table by the bound |a/b - q| <= max(10^-28, 10^-27 * |q|)), intermediate overflow inside sum/mul whose final result fits",
        "the scale of a numeric result is not asserted, its value is",
    ],
    budget,
    setup: crate::handlers::setup,
    case,
    fixed,
    replay: Some(replay),
    breadcrumb: false,
    fuzz: &[Fuzz { target: "choice", choice: true, runs: 300000, max_len: 800 }],
};

fn budget(t: Tier) -> Budget {
    Budget {
        cases: t.pick(4_000_000, 50_000_000),
        max_len: 200,
        shards: 16,
        dual_profile: false,
    }
}

fn cfg() -> SemCfg {
    SemCfg {
        max_depth: 5,
        edge: false,
        ill_typed_16: 4,
        observables: false,
        assignments: false,
    }
}

fn nontrivial(tree: &R, ev: &Ev) -> bool {
    tree.count_ops() >= 2 && !matches!(ev, Ev::Unspec(_))
}

fn case(src: &mut Src, st: &mut Stats, _env: &Env) -> CaseResult {
    st.eval();
    let mut c = cfg();
    // a fifth of the cases draws leaves from the edge palette as well
    c.edge = src.chance(1, 5);
    // a sixth of the cases contains assignments inside expressions (lists, maps, arguments): the
    // value of a later element then depends on the order in which the elements are evaluated
    c.assignments = src.pick(6) == 5;
    if c.assignments {
        st.hist("with-nested-assignments");
    }
    let sc = gen_context(src, &c);
    let ty = *src.choose(&[Ty::Num, Ty::Bool, Ty::Num, Ty::Bool, Ty::Any, Ty::List, Ty::Map, Ty::Str]);
    let mut tree = gen_expr(src, &c, &sc, ty, 0);
    if src.chance(1, 6) {
        // a chain of 2-3 statements: the value is the last one's, an error anywhere surfaces
        let n = 1 + src.pick(2);
        let mut stmts: Vec<R> = (0..n).map(|_| gen_expr(src, &c, &sc, Ty::Any, 1)).collect();
        stmts.push(tree);
        tree = R::Stmts(stmts);
        st.hist("statement-chain");
    }
    check_value(&tree, &sc, st, nontrivial)
}

const PALETTE: [&str; 31] = [
    "\"2\"",
    "0", "1", "2", "3", "(- 1)", "(- 7)", "0.5", "1.0", "1.50", "0.1", "0.2", "0.3", "7", "10", "64", "63", "9223372036854775807", "(- 9223372036854775808)",
    "79228162514264337593543950335", "true", "false", "\"\"", "\"a\"", "\"ab\"", "\"é\"", "[]", "[1]", "[1.0, \"a\"]", "u0", "{1 : 2}",
];
const BINOPS: [&str; 21] = [
    "+", "-", "*", "/", "%", "<", "<=", ">", ">=", "==", "!=", "&&", "||", "|", "^", "&", "<<", ">>", "beginWith", "endWith", "in",
];

fn fixed(env: &Env, st: &mut Stats) -> CaseResult {
    let tab = sem_table();
    let sc = SemCtx::default();
    let mut i = 0u64;
    for op in BINOPS {
        for a in PALETTE {
            for b in PALETTE {
                for neg in [false, true] {
                    i += 1;
                    if !env.mine(i) {
                        continue;
                    }
                    st.eval();
                    let text = if neg { format!("{} not {} {}", a, op, b) } else { format!("{} {} {}", a, op, b) };
                    let (tree, _, _) = crate::syntax::parse_text(&text, &tab).map_err(|e| Failure::new("harness-bug:table", format!("{}: {}", text, e), json!({"text": text})))?;
                    st.hist("table");
                    check_value(&tree, &sc, st, |_, ev| !matches!(ev, Ev::Unspec(_)))?;
                    // inexact quotients: the bound |a - q*b| <= |b| * 10^-28
                    if op == "/" && !neg {
                        quotient_bound(a, b, st)?;
                    }
                }
            }
        }
    }
    for op in ["-", "+", "!", "not", "AND", "OR"] {
        for a in PALETTE.iter().chain(["[true]", "[true, false]", "[false, 1]", "[1, false]", "[true, 1]"].iter()) {
            i += 1;
            if !env.mine(i) {
                continue;
            }
            st.eval();
            let text = format!("{} {}", op, a);
            let (tree, _, _) = crate::syntax::parse_text(&text, &tab).map_err(|e| Failure::new("harness-bug:table", format!("{}: {}", text, e), json!({"text": text})))?;
            check_value(&tree, &sc, st, |_, ev| !matches!(ev, Ev::Unspec(_)))?;
        }
    }
    for f in ["min", "max", "sum", "mul"] {
        for args in ["", "1", "1, 2", "2, 1", "1.0, 1", "3, (- 5), 2.5", "1, true", "\"a\"", "0.1, 0.2", "[1]", "u0", "1, 2, 3, 4"] {
            i += 1;
            if !env.mine(i) {
                continue;
            }
            st.eval();
            let text = format!("{}({})", f, args);
            let (tree, _, _) = crate::syntax::parse_text(&text, &tab).map_err(|e| Failure::new("harness-bug:table", format!("{}: {}", text, e), json!({"text": text})))?;
            check_value(&tree, &sc, st, |_, ev| !matches!(ev, Ev::Unspec(_)))?;
        }
    }
    st.set_extra("exhaustive_operator_table", json!(true));
    Ok(())
}

fn quotient_bound(a: &str, b: &str, st: &mut Stats) -> CaseResult {
    use crate::bigdec::BigDec;
    use crate::model::V;
    let tab = sem_table();
    let val = |t: &str| -> Option<BigDec> {
        let (r, _, _) = crate::syntax::parse_text(t, &tab).ok()?;
        let mut m = crate::model::Model::default();
        match m.run(&r) {
            Ev::Val(V::Num(d)) => Some(d),
            _ => None,
        }
    };
    let (x, y) = match (val(a), val(b)) {
        (Some(x), Some(y)) if !y.is_zero() => (x, y),
        _ => return Ok(()),
    };
    let text = format!("{} / {}", a, b);
    if let Ok(Ok(expression_engine::Value::Number(q))) = crate::eng::exec_text(&text) {
        let q = BigDec::from_decimal(&q);
        let err = x.sub(&q.mul(&y)).abs();
        // |a/b - q| <= max(10^-28, |q| * 10^-27): 28 decimal places or 27 significant digits,
        // whichever is coarser (a 96-bit mantissa holds 28.9 digits)
        let abs_bound = BigDec {
            neg: false,
            mant: y.mant.clone(),
            scale: y.scale + 28,
        };
        let rel_bound = BigDec {
            neg: false,
            mant: y.mant.mul(&q.mant),
            scale: y.scale + q.scale + 27,
        };
        let bound = if rel_bound.cmp_value(&abs_bound) == std::cmp::Ordering::Greater { rel_bound } else { abs_bound };
        st.hist("quotient-bound");
        if err.cmp_value(&bound) == std::cmp::Ordering::Greater {
            return Err(Failure::new(
                "/:value:quotient-bound",
                format!("{} = {} is off by {} (more than max(10^-28, 10^-27 * |q|))", text, q.to_text(), err.to_text()),
                json!({"text": text, "context": {}}),
            ));
        }
    }
    Ok(())
}

fn replay(case: &J, st: &mut Stats, _env: &Env) -> CaseResult {
    st.eval();
    let (tree, sc) = tree_from_case(case)?;
    check_value(&tree, &sc, st, nontrivial)
}
