//! C12 — expr() output re-parses to the same AST; rendering is idempotent.
use crate::gen_syntax::{gen_program, join, SynCfg};
use crate::model::sexp_ast;
use crate::props::c02::skeleton;
use crate::runner::*;
use crate::src::Src;
use crate::syntax::{parse_tokens, OpTable};
use expression_engine::parse_expression;
use serde_json::{json, Value as J};

pub static PROP: Prop = Prop {
    id: "C12",
    rule: "cases: programs from the flat generator (all 32 infix operators, `not OP`, prefix/postfix over atoms and parenthesised groups, conditionals in operand/condition/branch position, strings containing either quote, calls, lists, maps with conditional keys, statement chains; names are never operator words; in a third of the cases a user operator vh_rt is re-registered with another precedence (0, 1, 25 ... 205, and 20, 60, 110, 120, 200 - the levels of built-in operators) and associativity first and used heavily, together with a user postfix operator and a user prefix operator that are spelled as words (inside calls, lists, maps and statement chains a word operator is directly followed by a separator); a sixth of those are chains of vh_rt followed by an operator-like token that is not infix), plus exhaustive placements: every infix operator as parenthesised left and right child of every other (32x32x2), `not OP` forms under every operator, prefix and postfix operators over parenthesised infix/conditional/prefix/postfix operands, conditionals as operand, condition and branch. Oracle: t = parse(s); s2 = t.expr(); parse(s2) must be Ok(t2) with t2 == t (structural, numbers by mantissa and scale); t2.expr() == s2. Non-trivial: the tree has a compound node (infix, not-infix, conditional, prefix, postfix) directly under an operator or conditional node, or a string containing a quote; distinct by tree skeleton.",
    assumptions: &["programs come from the generator's well-formed grammar; a program the engine rejects is counted as excluded (C02 reports it)"],
    budget,
    setup: noop_setup,
    case,
    fixed,
    replay: Some(replay),
    breadcrumb: false,
    fuzz: &[Fuzz { target: "roundtrip", choice: false, runs: 1000000, max_len: 400 }, Fuzz { target: "choice", choice: true, runs: 300000, max_len: 640 }],
};

fn budget(t: Tier) -> Budget {
    Budget {
        cases: t.pick(3_000_000, 40_000_000),
        max_len: 160,
        shards: 16,
        dual_profile: false,
    }
}

/// user operators spelled as words: postfix `vh_pp`, prefix `vh_np`
fn register_words() {
    static WORDS: std::sync::Once = std::sync::Once::new();
    WORDS.call_once(|| {
        expression_engine::register_postfix_op("vh_pp", std::sync::Arc::new(|a| Ok(a)));
        expression_engine::register_prefix_op("vh_np", std::sync::Arc::new(|a| Ok(a)));
    });
}

fn register_rt(prec: i64, right: bool) {
    expression_engine::register_infix_op(
        "vh_rt",
        prec as i32,
        expression_engine::InfixOpType::CALC,
        if right { expression_engine::InfixOpAssociativity::RIGHT } else { expression_engine::InfixOpAssociativity::LEFT },
        std::sync::Arc::new(|a, _| Ok(a)),
    );
}

/// the property's precondition for arbitrary (fuzz-found) text: no name - reference or function -
/// is spelled like an operator word (`in= 1` tokenizes to the NAME `in`, which expr() must write
/// as the word `in`)
pub fn names_avoid_operator_words(text: &str) -> bool {
    let (toks, _) = expression_engine::verif_hooks::tokenize(text);
    let tab = OpTable::builtin();
    toks.iter().all(|t| !(matches!(t.kind, "reference" | "function") && (tab.is_op(&t.text) || t.text == "not" || t.text.starts_with("vh_"))))
}

pub fn check_text(text: &str, key: &str, nontrivial: bool, st: &mut Stats) -> CaseResult {
    check_text_with(text, key, nontrivial, st, json!({"text": text}))
}

pub fn check_text_with(text: &str, key: &str, nontrivial: bool, st: &mut Stats, case: J) -> CaseResult {
    let r = guard(|| -> Result<(String, String, Result<(String, String), String>), String> {
        let t = parse_expression(text).map_err(|e| e.to_string())?;
        let s1 = sexp_ast(&t);
        let rendered = t.expr();
        let second = match parse_expression(&rendered) {
            Ok(t2) => Ok((sexp_ast(&t2), t2.expr())),
            Err(e) => Err(e.to_string()),
        };
        Ok((s1, rendered.clone(), second))
    });
    match r {
        Err(p) => Err(Failure::new("panic", format!("{} : {}", text, p), case)),
        Ok(Err(_)) => {
            st.exclude("original-rejected");
            Ok(())
        }
        Ok(Ok((s1, rendered, second))) => {
            if nontrivial {
                st.nontrivial(key);
            }
            st.sample(|| json!({"text": text, "expr": rendered}));
            match second {
                Err(e) => Err(Failure::new("expr-not-accepted", format!("{}\n    expr() = {}\n    which is rejected: {}", text, rendered, e), case)),
                Ok((s2, r2)) => {
                    if s1 != s2 {
                        Err(Failure::new(
                            "expr-changes-tree",
                            format!("{}\n    expr() = {}\n    tree    : {}\n    re-parse: {}", text, rendered, s1, s2),
                            case,
                        ))
                    } else if r2 != rendered {
                        Err(Failure::new("expr-not-idempotent", format!("{}\n    expr() = {}\n    again  = {}", text, rendered, r2), case))
                    } else {
                        Ok(())
                    }
                }
            }
        }
    }
}

fn fixed(env: &Env, st: &mut Stats) -> CaseResult {
    let tab = OpTable::builtin();
    let ops: Vec<String> = tab.infix.keys().cloned().collect();
    let mut i = 0u64;
    let mut run = |text: String, st: &mut Stats| -> CaseResult {
        i += 1;
        if !env.mine(i) {
            return Ok(());
        }
        st.eval();
        st.hist("exhaustive-placement");
        check_text(&text, &text.replace(|c: char| c.is_ascii_lowercase() && c != 'n' && c != 'o' && c != 't', ""), true, st)
    };
    for p in &ops {
        for c in &ops {
            run(format!("( a {} b ) {} d", c, p), st)?;
            run(format!("a {} ( b {} d )", p, c), st)?;
            run(format!("( a not {} b ) {} d", c, p), st)?;
            run(format!("a not {} ( b not {} d )", p, c), st)?;
        }
        for pre in ["-", "!", "not", "AND", "+"] {
            run(format!("{} ( a {} b )", pre, p), st)?;
            run(format!("{} ( a not {} b )", pre, p), st)?;
            run(format!("( {} a ) {} b", pre, p), st)?;
            run(format!("a {} {} b", p, pre), st)?;
        }
        for post in ["++", "--"] {
            run(format!("( a {} b ) {}", p, post), st)?;
            run(format!("a {} b {}", p, post), st)?;
            run(format!("a {} {} b", post, p), st)?;
        }
        run(format!("( a ? b : c ) {} d", p), st)?;
        run(format!("a {} ( b ? c : d )", p), st)?;
        run(format!("a {} b ? c {} d : e {} g", p, p, p), st)?;
        run(format!("( a ? b : c ) ? d {} e : g", p), st)?;
    }
    for t in [
        "- ( - a )", "- - a", "( - a ) ++", "- ( a ++ )", "( a ++ ) ++", "( a ++ ) --", "! ( a ? b : c )", "( a ? b : c ) ++", "a ? ( b ? c : d ) : e",
        "a ? b : ( c ? d : e )", "( a ? b : c ) ? d : e", "not ( not a )", "- ( a ) ++", "'a\"b'", "\"a'b\"", "['x\"', \"y'\"]", "f('\"')",
        "{ a ? b : c : d }", "{ ( a ? b : c ) : ( d ? e : g ) }", "f( a ? b : c , ( d ) )", "[ ( a = b ) , c ]", "a = b ; ( c = d ) = e", "",
        "1.10 + 007", "a ; b ; c", "( a ; b )",
    ] {
        run(t.to_string(), st)?;
    }
    st.set_extra("exhaustive_parent_child_placements", json!(true));
    Ok(())
}

fn compound_under_operator(r: &crate::model::R) -> bool {
    use crate::model::R;
    fn compound(r: &R) -> bool {
        matches!(r, R::Infix(..) | R::NotInfix(..) | R::Cond(..) | R::Prefix(..) | R::Postfix(..))
    }
    match r {
        R::Infix(_, l, rr) | R::NotInfix(_, l, rr) => compound(l) || compound(rr) || compound_under_operator(l) || compound_under_operator(rr),
        R::Prefix(_, x) | R::Postfix(x, _) => compound(x) || compound_under_operator(x),
        R::Cond(c, a, b) => compound(c) || compound(a) || compound(b) || compound_under_operator(c) || compound_under_operator(a) || compound_under_operator(b),
        R::Str(p, _) => p.contains('"') || p.contains('\''),
        R::Call(_, a) | R::List(a) | R::Stmts(a) => a.iter().any(compound_under_operator),
        R::Map(m) => m.iter().any(|(k, v)| compound_under_operator(k) || compound_under_operator(v)),
        _ => false,
    }
}

fn case(src: &mut Src, st: &mut Stats, _env: &Env) -> CaseResult {
    st.eval();
    let mut tab = OpTable::builtin();
    let dynamic = src.chance(1, 3);
    if dynamic {
        // a user operator whose precedence / associativity changes from case to case: the
        // rendering must follow the registration made last
        // also the precedence of a built-in level, with either associativity: an operator that groups
        // to the right beside `*` or `+`, one that groups to the left beside the assignments
        let prec = *src.choose(&[115i64, 45, 125, 55, 25, 205, 65, 1, 0, 120, 110, 20, 60, 200]);
        let right = src.chance(1, 2);
        register_rt(prec, right);
        tab.infix.insert("vh_rt".to_string(), (prec, right));
        st.hist("re-registered-operator");
        if src.chance(1, 6) {
            // a chain of the user operator followed by an operator-like token that is not infix
            // (the lenient reading: a new statement starts there)
            let n = 2 + src.pick(3);
            let mut text = String::from("a");
            for _ in 1..n {
                text.push_str(" vh_rt ");
                text.push_str(*src.choose(&["b", "1", "( c )", "- d", "e ++"]));
            }
            text.push(' ');
            text.push_str(*src.choose(&["! g", "AND [ g ]", "OR [ g ]", ": g", "not g", "! g vh_rt h", "++ ! g"]));
            st.hist("user-operator-chain-with-tail");
            st.sample(|| json!({"text": text, "vh_rt": [prec, right]}));
            return check_text_with(&text, &format!("tail:{}:{}:{}", prec, right, text), true, st, json!({"text": text, "vh_rt": [prec, right]}));
        }
    }
    if dynamic {
        // user operators spelled as words, in postfix and prefix position
        register_words();
        tab.postfix.insert("vh_pp".to_string());
        tab.prefix.insert("vh_np".to_string());
    }
    let mut cfg = SynCfg::new(&tab);
    if dynamic {
        for _ in 0..8 {
            cfg.infix.push("vh_rt".to_string());
        }
        for _ in 0..2 {
            cfg.postfix.push("vh_pp".to_string());
            cfg.prefix.push("vh_np".to_string());
        }
    }
    let toks = gen_program(src, &cfg);
    let text = join(&toks);
    let (key, nt) = match parse_tokens(&toks, &tab) {
        Ok((r, _)) => (skeleton(&r), compound_under_operator(&r)),
        Err(_) => (String::new(), false),
    };
    check_text(&text, &key, nt, st)
}

fn replay(case: &J, st: &mut Stats, _env: &Env) -> CaseResult {
    st.eval();
    register_words();
    if let Some(r) = case["vh_rt"].as_array() {
        register_rt(r[0].as_i64().unwrap_or(100), r[1].as_bool().unwrap_or(false));
        return check_text_with(case["text"].as_str().unwrap_or(""), "", false, st, case.clone());
    }
    check_text(case["text"].as_str().unwrap_or(""), "", false, st)
}
