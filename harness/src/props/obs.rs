//! Shared by C07 and C15: programs with observable (logging) handlers, fault injection and
//! comparison of call logs and contexts with the model.
use crate::gen_sem::*;
use crate::handlers::{self, Mode};
use crate::model::{Binding, Ev, Model, R, V};
use crate::props::c06::compare_context;
use crate::props::sem::*;
use crate::runner::*;
use crate::src::Src;
use expression_engine::{execute, Context, Value};
use std::collections::BTreeMap;

pub fn obs_cfg() -> SemCfg {
    SemCfg {
        max_depth: 4,
        edge: false,
        ill_typed_16: 1,
        observables: true,
        assignments: true,
    }
}

/// context with logging functions; some of them shadow global functions
pub fn gen_obs_context(src: &mut Src, cfg: &SemCfg) -> SemCtx {
    let mut sc = gen_context(src, cfg);
    // mostly numeric variables, so that compound assignments and arithmetic go through
    for name in VAR_NAMES {
        if src.chance(2, 3) {
            let v = gen_value(src, cfg, Ty::Num, 0);
            sc.bindings.insert(name.to_string(), Binding::Var(v));
        }
    }
    // at least two logging context functions most of the time
    for (i, name) in FUNC_NAMES.iter().enumerate().take(3) {
        if !sc.bindings.contains_key(*name) && src.chance(2, 3) {
            let t = *src.choose(&[Ty::Num, Ty::Bool, Ty::Num, Ty::Str, Ty::List]);
            let v = gen_value(src, cfg, t, 0);
            sc.bindings.insert(name.to_string(), Binding::Func(i as u32, v));
        }
    }
    // a context function that shadows a global one (built-in or harness-registered)
    if src.chance(1, 3) {
        let name = *src.choose(&["sum", "vh_g0", "min", "vh_g1"]);
        let v = gen_value(src, cfg, Ty::Num, 0);
        sc.bindings.insert(name.to_string(), Binding::Func(5, v));
    }
    sc
}

pub fn gen_obs_program(src: &mut Src, cfg: &SemCfg, sc: &SemCtx) -> R {
    // assignment targets include names bound to logging context functions (reading the target
    // invokes the function) and never-bound names
    let mut stmts = gen_statements(src, cfg, sc, 4, false, true);
    // statements that are nothing but a bare name bound to a logging context function
    let funcs = sc.funcs_of(Ty::Any);
    if !funcs.is_empty() {
        let n = src.weighted(&[2, 2, 1]);
        for _ in 0..n {
            let pos = src.pick(stmts.len() + 1);
            let name = src.choose(&funcs).0.clone();
            stmts.insert(pos, R::Ref(name));
        }
    }
    // make sure there is something to observe: a final expression built around observables
    let t = *src.choose(&[Ty::Num, Ty::Bool, Ty::List, Ty::Num]);
    stmts.push(gen_expr(src, cfg, sc, t, 0));
    R::Stmts(stmts)
}

pub struct Analysis {
    pub observables: usize,
    pub nested: bool,
    pub cond_both: bool,
}

fn is_logger(name: &str, kind: u8, sc: &SemCtx) -> bool {
    match kind {
        0 => matches!(sc.bindings.get(name), Some(Binding::Func(..))) || handlers::GLOBAL_FUNCS.iter().any(|(n, _)| *n == name),
        1 => handlers::PREFIX_OPS.iter().any(|(n, _)| *n == name),
        2 => handlers::INFIX_OPS.iter().any(|(n, _)| *n == name) || handlers::SETTER_OPS.iter().any(|(n, _)| *n == name),
        _ => handlers::POSTFIX_OPS.iter().any(|(n, _)| *n == name),
    }
}

pub fn analyse(r: &R, sc: &SemCtx, inside: bool, a: &mut Analysis) -> usize {
    // returns the number of observables in this subtree
    let mut count = 0;
    let mut here = false;
    let mut kids: Vec<&R> = vec![];
    match r {
        R::Ref(n) => here = matches!(sc.bindings.get(n), Some(Binding::Func(..))),
        R::Call(n, args) => {
            here = is_logger(n, 0, sc);
            kids.extend(args.iter());
        }
        R::Prefix(op, x) => {
            here = is_logger(op, 1, sc);
            kids.push(x);
        }
        R::Postfix(x, op) => {
            here = is_logger(op, 3, sc);
            kids.push(x);
        }
        R::Infix(op, l, rr) | R::NotInfix(op, l, rr) => {
            here = is_logger(op, 2, sc);
            kids.push(l);
            kids.push(rr);
        }
        R::Cond(c, x, y) => {
            count += analyse(c, sc, inside, a);
            let (cx, cy) = (analyse(x, sc, inside, a), analyse(y, sc, inside, a));
            if cx > 0 && cy > 0 {
                a.cond_both = true;
            }
            return count + cx + cy;
        }
        R::List(v) | R::Stmts(v) => kids.extend(v.iter()),
        R::Map(m) => m.iter().for_each(|(k, v)| {
            kids.push(k);
            kids.push(v)
        }),
        _ => {}
    }
    if here {
        count += 1;
        a.observables += 1;
        if inside {
            a.nested = true;
        }
    }
    for k in kids {
        count += analyse(k, sc, inside || here, a);
    }
    count
}

pub fn same_log(a: &[(u32, Vec<V>)], b: &[(u32, Vec<V>)]) -> bool {
    a.len() == b.len()
        && a.iter().zip(b).all(|((i, x), (j, y))| i == j && x.len() == y.len() && x.iter().zip(y).all(|(p, q)| p.eq_value(q) && p.type_name() == q.type_name()))
}

pub fn show_log(l: &[(u32, Vec<V>)]) -> String {
    l.iter().map(|(id, args)| format!("#{}({})", id, args.iter().map(|a| a.key()).collect::<Vec<_>>().join(", "))).collect::<Vec<_>>().join(" ")
}

pub struct Outcome {
    pub engine: crate::eng::Guarded<Value>,
    pub log: Vec<(u32, Vec<V>)>,
    pub handle: Context,
}

/// runs `text` with a context built from `sc`, optionally armed
pub fn run_engine(text: &str, sc: &SemCtx, armed: Option<(usize, Mode)>) -> Outcome {
    handlers::reset();
    let ctx = handlers::context_of(&sc.bindings);
    let handle = handlers::share(&ctx);
    if let Some((k, m)) = armed {
        handlers::arm(k, m);
    }
    let engine = guard(|| execute(text, ctx).map_err(|e| e.to_string()));
    let log = handlers::take_log();
    handlers::reset();
    Outcome { engine, log, handle }
}

pub fn run_model(tree: &R, sc: &SemCtx, fault_at: Option<usize>) -> (Ev, Model) {
    let mut m = Model {
        ctx: sc.bindings.clone(),
        loggers: handlers::loggers(),
        fault_at,
        ..Default::default()
    };
    let ev = m.run(tree);
    (ev, m)
}

pub fn log_signature(expected: &[(u32, Vec<V>)], got: &[(u32, Vec<V>)], armed: bool) -> &'static str {
    if got.len() > expected.len() && same_log(expected, &got[..expected.len()]) {
        return if armed { "after-error" } else { "extra-evaluation" };
    }
    if got.len() < expected.len() && same_log(&expected[..got.len()], got) {
        return "missing-evaluation";
    }
    let mut a: Vec<String> = expected.iter().map(|(i, x)| format!("{}{:?}", i, x.iter().map(|v| v.key()).collect::<Vec<_>>())).collect();
    let mut b: Vec<String> = got.iter().map(|(i, x)| format!("{}{:?}", i, x.iter().map(|v| v.key()).collect::<Vec<_>>())).collect();
    a.sort();
    b.sort();
    if a == b {
        "order"
    } else if got.len() != expected.len() {
        "count"
    } else {
        "arguments"
    }
}

pub fn names_in_play(sc: &SemCtx) -> Vec<String> {
    let mut v: Vec<String> = VAR_NAMES.iter().map(|s| s.to_string()).collect();
    v.extend(sc.bindings.keys().cloned());
    v.sort();
    v.dedup();
    v
}

pub fn context_matches(handle: &Context, model: &BTreeMap<String, Binding>, names: &[String]) -> Result<(), String> {
    let read = guard(|| handlers::read_back(handle, names)).map_err(|p| format!("reading the context panicked: {}", p))?;
    compare_context(model, &read)
}

pub fn obs_case_json(tree: &R, sc: &SemCtx, k: Option<usize>, mode: &str) -> serde_json::Value {
    let mut j = case_json(tree, sc);
    j["fault_at"] = serde_json::json!(k);
    j["mode"] = serde_json::json!(mode);
    j
}
