//! C08 — names and operators dispatch to the handler and binding last registered; a registered
//! infix operator parses with exactly its registered precedence and associativity.
use crate::gen_syntax::{gen_program, join, SynCfg};
use crate::model::{sexp_ast, Binding, Ev, Model, V};
use crate::runner::*;
use crate::src::Src;
use crate::syntax::{parse_tokens, OpTable, SPECIAL};
use expression_engine::{execute, parse_expression, register_function, Context, Value};
use serde_json::{json, Value as J};
use std::collections::BTreeMap;
use std::sync::mpsc::channel;
use std::sync::Arc;
use std::time::Duration;

pub static PROP: Prop = Prop {
    id: "C08",
    rule: "cases: histories of 2-14 steps, each in a fresh child process over 1-2 persistent threads: register_function / register_prefix_op / register_postfix_op / register_infix_op(name, precedence, associativity) with handlers that return List[id, operands...] (a quarter of the function handlers also (re-)register a function when they run - possibly the one whose call they are an argument of; one infix registration in ten - two in three when it overrides an assignment operator - is of kind SETTER: the handler's value is bound to the left operand's name); names are fresh words (identifiers and spellings that are none: is-not, ~=, @@, не, enthält, divisible-by, содержит, größer_als), re-registrations of earlier names and built-in names (min, sum, +, - prefix, ++, in, &&) - also as the very first engine call of the process; symbolic operators only as one-character extensions of existing operators or of the conditional's marks (`:=`, `??`, `?:`); precedences from {1, 2, 19, 20, 21, 39..41, 59..61, 109..111, 119..121, 199..201, 10^9-1, 10^9} and uniform 1..=10^9 (an operator on an existing level takes that level's associativity); parse(text) and exec(text, context) steps with flat programs generated over the CURRENT operator table that use the registered names often; contexts that shadow a global function with a context function, bind the same name as a variable, or leave it unbound (and fixed programs in which an assignment turns a context function into a variable before it is called again). One step in twenty is a burst: 2-6 registrations of different names (new functions and operators of every kind, and the built-ins min, !, AND, not, -, +, in, ++) run concurrently, each on a thread of its own behind one barrier, and every one of them is used afterwards - each register_* call has returned, so each must be in force. Oracle: a model registry updated per step (insert semantics); parse => reference parser parameterised by the model table; exec => reference evaluator whose handlers return List[id, args...], call dispatch = context function, else global, else error. Plus pairs of operators at 999 999 999 / 10^9, 6*10^8 / 9*10^8 and around 2^29, held-initialisation scenarios in which built-ins are overridden while another thread's first use is parked mid-initialisation, free-running races in which a function / prefix / infix / postfix operator is re-registered thousands of times while 2-4 threads evaluate a program that uses it once (every evaluation must dispatch to one of the two handlers), a fixed table of SETTER overrides of `=`, `+=`, `|=` and a new word, and the exhaustive adjacent-precedence table: a new operator at p in {q-1, q, q+1} x {LEFT, RIGHT where allowed} on either side of each of the 11 built-in levels q. Non-trivial: a re-registration, built-in override or context shadow that is subsequently used, or an operator whose precedence differs by exactly 1 from another operator used in the same text; distinct by (step-kind sequence, relative precedence pattern).",
    assumptions: &[
        "an operator registered at an existing precedence level is given that level's associativity (mixed associativity on one level is undocumented)",
        "one spelling is not registered both as postfix and as prefix/infix operator (undocumented)",
    ],
    budget,
    setup: noop_setup,
    case,
    fixed,
    replay: Some(replay),
    breadcrumb: false,
    fuzz: &[],
};

fn budget(t: Tier) -> Budget {
    Budget {
        cases: t.pick(30_000, 400_000),
        max_len: 900,
        shards: 16,
        dual_profile: false,
    }
}

fn echo(id: i64, args: Vec<Value>) -> Value {
    let mut v = vec![Value::from(id)];
    v.extend(args);
    Value::List(v)
}

fn value_key(v: &Value) -> String {
    V::from_value(v).key()
}

/// child: {"threads": T, "steps": [...]}; one line of JSON: {"out": [string per step]}
pub fn worker() -> i32 {
    use std::io::Read;
    install_panic_hook();
    let mut s = String::new();
    std::io::stdin().read_to_string(&mut s).ok();
    let doc: J = serde_json::from_str(&s).unwrap_or(json!({}));
    let nthreads = doc["threads"].as_u64().unwrap_or(1).max(1) as usize;
    let mut txs = vec![];
    let mut rxs = vec![];
    for _ in 0..nthreads {
        let (tx, rx_cmd) = channel::<J>();
        let (tx_rep, rx) = channel::<String>();
        std::thread::spawn(move || {
            while let Ok(st) = rx_cmd.recv() {
                let r = guard(|| match st["op"].as_str().unwrap_or("") {
                    "reg_fn" => {
                        let id = st["id"].as_i64().unwrap_or(0);
                        // optionally the handler itself registers a function when it runs
                        let inner: Option<(String, i64)> = st["registers"]["name"].as_str().map(|n| (n.to_string(), st["registers"]["id"].as_i64().unwrap_or(0)));
                        register_function(
                            st["name"].as_str().unwrap_or(""),
                            Arc::new(move |args| {
                                if let Some((n, i2)) = &inner {
                                    let i2 = *i2;
                                    register_function(n, Arc::new(move |a| Ok(echo(i2, a))));
                                }
                                Ok(echo(id, args))
                            }),
                        );
                        "ok".to_string()
                    }
                    "reg_op" => {
                        crate::props::register_op(&st["spec"], st["id"].as_i64().unwrap_or(0));
                        "ok".to_string()
                    }
                    "reg_burst" => {
                        // every registration of the burst on a thread of its own, released together
                        let regs = st["regs"].as_array().cloned().unwrap_or_default();
                        let barrier = Arc::new(std::sync::Barrier::new(regs.len()));
                        let hs: Vec<_> = regs
                            .into_iter()
                            .map(|r| {
                                let b = barrier.clone();
                                std::thread::spawn(move || {
                                    let id = r["id"].as_i64().unwrap_or(0);
                                    b.wait();
                                    if r["op"] == "reg_fn" {
                                        register_function(r["name"].as_str().unwrap_or(""), Arc::new(move |args| Ok(echo(id, args))));
                                    } else {
                                        crate::props::register_op(&r["spec"], id);
                                    }
                                })
                            })
                            .collect();
                        let ok = hs.into_iter().all(|h| h.join().is_ok());
                        if ok { "ok".to_string() } else { "PANIC in a registering thread".to_string() }
                    }
                    "parse" => match parse_expression(st["text"].as_str().unwrap_or("")) {
                        Ok(a) => sexp_ast(&a),
                        Err(e) => format!("ERR {}", e),
                    },
                    _ => {
                        let mut ctx = Context::new();
                        if let Some(o) = st["ctx"].as_object() {
                            for (k, b) in o {
                                if let Some(id) = b["fn"].as_i64() {
                                    ctx.set_func(k, Arc::new(move |args| Ok(echo(id, args))));
                                } else if let Some(v) = V::from_json(&b["var"]) {
                                    ctx.set_variable(k, v.to_value());
                                }
                            }
                        }
                        match execute(st["text"].as_str().unwrap_or(""), ctx) {
                            Ok(v) => format!("Ok({})", value_key(&v)),
                            Err(_) => "Err".to_string(),
                        }
                    }
                });
                let _ = tx_rep.send(match r {
                    Ok(s) => s,
                    Err(p) => format!("PANIC {}", p),
                });
            }
        });
        txs.push(tx);
        rxs.push(rx);
    }
    let mut out = vec![];
    for st in doc["steps"].as_array().cloned().unwrap_or_default() {
        let t = (st["thread"].as_u64().unwrap_or(0) as usize).min(nthreads - 1);
        txs[t].send(st).ok();
        out.push(rxs[t].recv_timeout(Duration::from_secs(20)).unwrap_or_else(|_| "TIMEOUT".into()));
    }
    println!("{}", json!({"out": out}));
    0
}

#[derive(Clone)]
struct Reg {
    tab: OpTable,
    functions: BTreeMap<String, u32>,
    prefix: BTreeMap<String, u32>,
    infix: BTreeMap<String, u32>,
    postfix: BTreeMap<String, u32>,
    /// infix operators registered with the SETTER type
    setters: std::collections::BTreeSet<String>,
    side_effects: BTreeMap<u32, (String, u32)>,
}

impl Reg {
    fn new() -> Reg {
        Reg {
            tab: OpTable::builtin(),
            functions: BTreeMap::new(),
            prefix: BTreeMap::new(),
            infix: BTreeMap::new(),
            postfix: BTreeMap::new(),
            setters: std::collections::BTreeSet::new(),
            side_effects: BTreeMap::new(),
        }
    }
    fn model(&self, ctx: &BTreeMap<String, Binding>) -> Model {
        let mut m = Model::default();
        m.loggers.echo = true;
        for (k, id) in &self.functions {
            m.loggers.functions.insert(k.clone(), (*id, V::None));
        }
        for (k, id) in &self.prefix {
            m.loggers.prefix.insert(k.clone(), (*id, V::None));
        }
        for (k, id) in &self.infix {
            if self.setters.contains(k) {
                m.loggers.setters.insert(k.clone(), (*id, V::None));
            } else {
                m.loggers.infix.insert(k.clone(), (*id, V::None));
            }
        }
        for (k, id) in &self.postfix {
            m.loggers.postfix.insert(k.clone(), (*id, V::None));
        }
        m.ctx = ctx.clone();
        m.side_effects = self.side_effects.clone();
        m
    }
    fn apply(&mut self, st: &J) {
        let id = st["id"].as_u64().unwrap_or(0) as u32;
        match st["op"].as_str().unwrap_or("") {
            "reg_fn" => {
                self.functions.insert(st["name"].as_str().unwrap_or("").to_string(), id);
                match st["registers"]["name"].as_str() {
                    Some(n) => {
                        self.side_effects.insert(id, (n.to_string(), st["registers"]["id"].as_u64().unwrap_or(0) as u32));
                    }
                    None => {
                        self.side_effects.remove(&id);
                    }
                }
            }
            "reg_op" => {
                let sp = &st["spec"];
                let name = sp["name"].as_str().unwrap_or("").to_string();
                match sp["kind"].as_str().unwrap_or("") {
                    "infix" => {
                        self.tab.infix.insert(name.clone(), (sp["prec"].as_i64().unwrap_or(1), sp["right"].as_bool().unwrap_or(false)));
                        if sp["setter"].as_bool().unwrap_or(false) {
                            self.setters.insert(name.clone());
                        } else {
                            self.setters.remove(&name);
                        }
                        self.infix.insert(name, id);
                    }
                    "prefix" => {
                        self.tab.prefix.insert(name.clone());
                        self.prefix.insert(name, id);
                    }
                    _ => {
                        self.tab.postfix.insert(name.clone());
                        self.postfix.insert(name, id);
                    }
                }
            }
            "reg_burst" => {
                // distinct names: the order in which the registrations land does not matter
                for r in st["regs"].as_array().cloned().unwrap_or_default() {
                    self.apply(&r);
                }
            }
            _ => {}
        }
    }
}

const PRECS: [i64; 22] = [1, 2, 19, 20, 21, 39, 40, 41, 59, 60, 61, 109, 110, 111, 119, 120, 121, 199, 200, 201, 999_999_999, 1_000_000_000];
const WORDS: [&str; 19] = [
    "hi", "lo", "xor", "mod", "plus", "w_1", "Then", "isnt", "nand", "up", "is-not", "~=", "@@", "не", "enthält", "divisible-by", "содержит", "größer_als", "не-входит-в",
];
const FN_NAMES: [&str; 8] = ["fa", "fb", "fc", "min", "sum", "max", "mul", "f.x"];

fn level_assoc(tab: &OpTable, prec: i64) -> Option<bool> {
    tab.infix.values().find(|(p, _)| *p == prec).map(|(_, r)| *r)
}

fn gen_reg_step(src: &mut Src, reg: &Reg, id: u32, thread: usize) -> J {
    match src.weighted(&[3, 4, 2, 2]) {
        0 => {
            let mut pool: Vec<String> = FN_NAMES.iter().map(|s| s.to_string()).collect();
            pool.extend(reg.functions.keys().cloned());
            let name = src.choose(&pool).clone();
            if src.chance(1, 4) {
                // a handler that, when it runs, (re-)registers a function - possibly the one
                // whose call it is an argument of
                let target = src.choose(&pool).clone();
                json!({"op": "reg_fn", "name": name, "id": id, "thread": thread, "registers": {"name": target, "id": 3000 + id}})
            } else {
                json!({"op": "reg_fn", "name": name, "id": id, "thread": thread})
            }
        }
        k => {
            let kind = ["infix", "prefix", "postfix"][k - 1];
            // names: fresh words, earlier names of this kind, built-ins of this kind, symbolic extensions
            let mut pool: Vec<String> = WORDS.iter().map(|s| s.to_string()).collect();
            let existing: Vec<String> = match kind {
                "infix" => reg.tab.infix.keys().cloned().collect(),
                "prefix" => reg.tab.prefix.iter().cloned().collect(),
                _ => reg.tab.postfix.iter().cloned().collect(),
            };
            let name = match src.weighted(&[4, 3, 2]) {
                0 => src.choose(&pool).clone(),
                1 => src.choose(&existing).clone(),
                _ => {
                    let mut syms: Vec<String> = reg.tab.infix.keys().cloned().collect();
                    syms.extend(reg.tab.prefix.iter().cloned());
                    syms.extend(reg.tab.postfix.iter().cloned());
                    syms.retain(|o| o.chars().all(|c| SPECIAL.contains(c)));
                    // the marks of the conditional are operator characters like any other: `:=`, `??`
                    syms.push("?".to_string());
                    syms.push(":".to_string());
                    pool = syms;
                    let base = src.choose(&pool).clone();
                    format!("{}{}", base, SPECIAL.chars().nth(src.pick(14)).unwrap())
                }
            };
            // keep postfix spellings disjoint from prefix/infix ones, and never touch ? :
            let clash = match kind {
                "postfix" => reg.tab.infix.contains_key(&name) || reg.tab.prefix.contains(&name),
                _ => reg.tab.postfix.contains(&name),
            } || name == "?"
                || name == ":"
                || name == "not";
            let name = if clash { format!("w{}", id) } else { name };
            let prec = if src.chance(3, 4) { *src.choose(&PRECS) } else { 1 + (src.u64() % 1_000_000_000) as i64 };
            let right = level_assoc(&reg.tab, prec).unwrap_or_else(|| src.chance(1, 2));
            // re-registering an operator on its own level: keep the level's associativity, but the
            // operator's own old entry does not count as "the level" if it is alone there
            // an infix operator may be registered with the SETTER type (also over a built-in
            // assignment operator): `x op e` then binds x to the handler's result
            let setter = kind == "infix" && (crate::model::is_assign(&name) && src.chance(2, 3) || src.chance(1, 10));
            json!({"op": "reg_op", "spec": {"kind": kind, "name": name, "prec": prec, "right": right, "setter": setter}, "id": id, "thread": thread})
        }
    }
}

fn run_history(threads: usize, steps: &[J], env: &Env, st: &mut Stats) -> CaseResult {
    let scenario = json!({"threads": threads, "steps": steps});
    let out = run_child(&env.exe, &["worker", "c08"], &scenario.to_string(), Duration::from_secs(60));
    st.add_extra("child_processes", 1);
    let doc: J = match (&out.end, serde_json::from_str::<J>(&out.stdout)) {
        (ChildEnd::Exit(0), Ok(d)) => d,
        _ => return Err(Failure::new("child:crash", format!("child ended with {:?}; stderr: {}", out.end, out.stderr), scenario)),
    };
    let mut reg = Reg::new();
    for (i, stp) in steps.iter().enumerate() {
        let got = doc["out"][i].as_str().unwrap_or("<missing>").to_string();
        let op = stp["op"].as_str().unwrap_or("");
        if got.starts_with("PANIC") || got == "TIMEOUT" {
            return Err(Failure::new(format!("{}:{}", if got == "TIMEOUT" { "hang" } else { "panic" }, op), format!("step {} {} gave {}", i, stp, got), scenario));
        }
        match op {
            "reg_fn" | "reg_op" | "reg_burst" => reg.apply(stp),
            "parse" => {
                st.eval();
                let text = stp["text"].as_str().unwrap_or("");
                let want = match crate::syntax::parse_text(text, &reg.tab) {
                    Ok((r, _, _)) => r.sexp(),
                    Err(e) => return Err(Failure::new("harness-bug:parse-step", format!("{}: {}", text, e), scenario)),
                };
                if got != want {
                    let first_engine_call = steps[..i].iter().all(|s| s["op"] == "reg_fn" || s["op"] == "reg_op");
                    let _ = first_engine_call;
                    return Err(Failure::new(
                        "precedence-or-associativity",
                        format!("step {}: parse {:?} after the registrations so far\n    engine   : {}\n    reference: {}", i, text, got, want),
                        scenario,
                    ));
                }
            }
            _ => {
                st.eval();
                let text = stp["text"].as_str().unwrap_or("");
                let tree = match crate::syntax::parse_text(text, &reg.tab) {
                    Ok((r, _, _)) => r,
                    Err(e) => return Err(Failure::new("harness-bug:exec-step", format!("{}: {}", text, e), scenario)),
                };
                let mut ctx = BTreeMap::new();
                if let Some(o) = stp["ctx"].as_object() {
                    for (k, b) in o {
                        if let Some(id) = b["fn"].as_u64() {
                            ctx.insert(k.clone(), Binding::Func(id as u32, V::None));
                        } else if let Some(v) = V::from_json(&b["var"]) {
                            ctx.insert(k.clone(), Binding::Var(v));
                        }
                    }
                }
                if !reg.side_effects.is_empty() && nonname_assign(&tree, &reg.setters) {
                    // whether the operands of an assignment to a non-name run before the error is
                    // not pinned; with registering handlers around, the registry is unknown from
                    // here on, so the rest of the history asserts nothing
                    st.exclude("history-cut:non-name-assignment-with-registering-handlers");
                    return Ok(());
                }
                let mut m = reg.model(&ctx);
                let ev = m.run(&tree);
                for (name, (id, _)) in &m.loggers.functions {
                    reg.functions.insert(name.clone(), *id);
                }
                let want = match &ev {
                    Ev::Val(v) => format!("Ok({})", v.key()),
                    Ev::Err(_) => "Err".to_string(),
                    _ => {
                        if !reg.side_effects.is_empty() {
                            // the reference stopped at an unspecified value, the engine may have gone
                            // on and run registering handlers: the registry is unknown from here on
                            st.exclude("history-cut:unspecified-value-with-registering-handlers");
                            return Ok(());
                        }
                        continue;
                    }
                };
                if got != want {
                    return Err(Failure::new(
                        "dispatch",
                        format!("step {}: exec {:?} with context {}\n    engine   : {}\n    reference: {}", i, text, stp["ctx"], got, want),
                        scenario,
                    ));
                }
            }
        }
    }
    Ok(())
}

/// an assignment (built-in assignment operator or user SETTER operator, plain or in its `not`
/// form) whose target is not a plain name
fn nonname_assign(r: &crate::model::R, setters: &std::collections::BTreeSet<String>) -> bool {
    use crate::model::R;
    let go = |x: &R| nonname_assign(x, setters);
    match r {
        R::Infix(op, l, rr) | R::NotInfix(op, l, rr) => ((crate::model::is_assign(op) || setters.contains(op)) && !matches!(**l, R::Ref(_))) || go(l) || go(rr),
        R::Prefix(_, x) | R::Postfix(x, _) => go(x),
        R::Cond(c, a, b) => go(c) || go(a) || go(b),
        R::Call(_, a) | R::List(a) | R::Stmts(a) => a.iter().any(go),
        R::Map(m) => m.iter().any(|(k, v)| go(k) || go(v)),
        _ => false,
    }
}

fn gen_text(src: &mut Src, reg: &Reg, ctx_names: &[String]) -> String {
    let mut cfg = SynCfg::new(&reg.tab);
    cfg.max_depth = 2;
    cfg.max_operands = 6;
    cfg.statements = false;
    // registered names several times over, so that they are used often
    let extra_in: Vec<String> = reg.infix.keys().cloned().collect();
    for _ in 0..4 {
        cfg.infix.extend(extra_in.iter().cloned());
    }
    for _ in 0..3 {
        cfg.prefix.extend(reg.prefix.keys().cloned());
        cfg.postfix.extend(reg.postfix.keys().cloned());
    }
    cfg.extra_funcs = reg.functions.keys().cloned().chain(ctx_names.iter().cloned()).collect();
    cfg.extra_names = ctx_names.to_vec();
    let toks = gen_program(src, &cfg);
    // the generated token list must mean the same to the reference parser
    let _ = parse_tokens(&toks, &reg.tab);
    join(&toks)
}

fn case(src: &mut Src, st: &mut Stats, env: &Env) -> CaseResult {
    let threads = 1 + src.weighted(&[1, 1]);
    let nsteps = 2 + src.pick(13);
    // the kind of every step first
    let kinds: Vec<usize> = (0..nsteps).map(|i| if i == 0 { src.weighted(&[3, 1, 1]) } else { src.weighted(&[4, 4, 6, 3, 2, 1]) }).collect();
    let thr: Vec<usize> = (0..nsteps).map(|_| src.pick(threads)).collect();
    let mut reg = Reg::new();
    let mut steps: Vec<J> = vec![];
    let mut shape = String::new();
    let mut interesting = false;
    for i in 0..nsteps {
        let stp = match kinds[i] {
            0 => {
                let s = gen_reg_step(src, &reg, 500 + i as u32, thr[i]);
                let name = s["name"].as_str().or_else(|| s["spec"]["name"].as_str()).unwrap_or("").to_string();
                let known = reg.functions.contains_key(&name) || OpTable::builtin().is_op(&name) || reg.tab.is_op(&name) || ["min", "max", "sum", "mul"].contains(&name.as_str());
                if known {
                    interesting = true;
                }
                shape.push(if known { 'R' } else { 'r' });
                s
            }
            1 => {
                shape.push('p');
                json!({"op": "parse", "text": gen_text(src, &reg, &[]), "thread": thr[i]})
            }
            4 => {
                // call a function on one thread, replace it on another, call it again on the first
                shape.push('F');
                let a = thr[i];
                let b = (a + 1) % threads;
                let name = src.choose(&FN_NAMES).to_string();
                let s1 = json!({"op": "exec", "text": format!("[ {} ( 1 ) , {} ( {} ( 2 ) ) ]", name, name, name), "ctx": {}, "thread": a});
                let s2 = json!({"op": "reg_fn", "name": name, "id": 800 + i as u32, "thread": b});
                reg.apply(&s1);
                steps.push(s1.clone());
                reg.apply(&s2);
                steps.push(s2);
                interesting = true;
                s1
            }
            5 => {
                // 2-6 registrations of different names (new ones and built-ins) that run concurrently,
                // each on a thread of its own; afterwards every one of them is used
                shape.push('B');
                interesting = true;
                let pool: [(&str, &str); 16] = [
                    ("fn", "bf1"), ("fn", "bf2"), ("fn", "min"), ("prefix", "bp1"), ("prefix", "bp2"), ("prefix", "!"), ("prefix", "AND"), ("prefix", "-"),
                    ("infix", "bi1"), ("infix", "bi2"), ("infix", "+"), ("infix", "in"), ("postfix", "bq1"), ("postfix", "bq2"), ("postfix", "++"), ("prefix", "not"),
                ];
                let n = 2 + src.pick(5);
                let mut regs: Vec<J> = vec![];
                let mut uses: Vec<String> = vec![];
                let start = src.pick(pool.len());
                let stride = *src.choose(&[1usize, 3, 5, 7]);
                for j in 0..n {
                    let (kind, name) = pool[(start + j * stride) % pool.len()];
                    let id = 1000 + 10 * i as u32 + j as u32;
                    if kind == "fn" {
                        regs.push(json!({"op": "reg_fn", "name": name, "id": id}));
                        uses.push(format!("{} ( 1 )", name));
                    } else {
                        let (prec, right) = match name {
                            "+" => (110, false),
                            "in" => (200, false),
                            _ => (115, false),
                        };
                        regs.push(json!({"op": "reg_op", "spec": {"kind": kind, "name": name, "prec": prec, "right": right, "setter": false}, "id": id}));
                        uses.push(match kind {
                            "prefix" => format!("{} 1", name),
                            "postfix" => format!("1 {}", name),
                            _ => format!("1 {} 2", name),
                        });
                    }
                }
                let burst = json!({"op": "reg_burst", "regs": regs, "thread": thr[i]});
                reg.apply(&burst);
                steps.push(burst);
                let last = uses.pop().unwrap_or_else(|| "1".into());
                for u in uses {
                    let e = json!({"op": "exec", "text": u, "ctx": {}, "thread": thr[i]});
                    steps.push(e);
                }
                json!({"op": "exec", "text": last, "ctx": {}, "thread": (thr[i] + 1) % threads})
            }
            3 => {
                // parse on one thread, move an operator of that text to another precedence on
                // another thread, parse the same text again on the first thread
                shape.push('T');
                let a = thr[i];
                let b = (a + 1) % threads;
                let ops: Vec<String> = reg.tab.infix.keys().filter(|k| k.as_str() != "=").cloned().collect();
                let x = src.choose(&ops).clone();
                let y = src.choose(&ops).clone();
                let text = format!("a {} b {} c {} d", x, y, x);
                let prec = *src.choose(&PRECS);
                let right = level_assoc(&reg.tab, prec).unwrap_or_else(|| src.chance(1, 2));
                let s1 = json!({"op": "parse", "text": text, "thread": a});
                let s2 = json!({"op": "reg_op", "spec": {"kind": "infix", "name": x, "prec": prec, "right": right}, "id": 700 + i as u32, "thread": b});
                reg.apply(&s1);
                steps.push(s1.clone());
                reg.apply(&s2);
                steps.push(s2);
                interesting = true;
                s1
            }
            _ => {
                shape.push('e');
                // a context that shadows / binds as variable / leaves unbound
                let mut ctx = serde_json::Map::new();
                let mut names = vec![];
                for n in reg.functions.keys().cloned().chain(["fa".to_string(), "min".to_string()]) {
                    match src.weighted(&[3, 2, 2]) {
                        1 => {
                            ctx.insert(n.clone(), json!({"fn": 900 + names.len()}));
                            names.push(n);
                            interesting = true;
                        }
                        2 => {
                            ctx.insert(n.clone(), json!({"var": V::int(5).to_json()}));
                            names.push(n);
                        }
                        _ => {}
                    }
                }
                json!({"op": "exec", "text": gen_text(src, &reg, &names), "ctx": ctx, "thread": thr[i]})
            }
        };
        reg.apply(&stp);
        steps.push(stp);
    }
    // adjacency: two operators in the table whose precedences differ by exactly one
    let precs: Vec<i64> = reg.tab.infix.values().map(|x| x.0).collect();
    let adjacent = precs.iter().any(|p| precs.contains(&(p + 1)));
    if interesting || adjacent {
        st.nontrivial(&format!("{}|{}|{}", shape, threads, adjacent));
    }
    st.hist(&format!("first-step:{}", steps[0]["op"].as_str().unwrap_or("")));
    st.sample(|| json!({"threads": threads, "steps": steps}));
    run_history(threads, &steps, env, st)
}

fn fixed(env: &Env, st: &mut Stats) -> CaseResult {
    // a new operator at p in {q-1, q, q+1} next to every built-in level q, on either side
    let levels: [(i64, &str, bool); 11] = [
        (20, "=", true), (40, "||", false), (50, "&&", false), (60, "<", false), (70, "|", false), (80, "^", false), (90, "&", false), (100, "<<", false), (110, "+", false),
        (120, "*", false), (200, "in", false),
    ];
    let mut i = 0u64;
    for (q, op, right_q) in levels {
        for d in [-1i64, 0, 1] {
            for right in [false, true] {
                let p = q + d;
                if d == 0 && right != right_q {
                    continue;
                }
                if level_assoc(&OpTable::builtin(), p).map(|r| r != right).unwrap_or(false) {
                    continue;
                }
                i += 1;
                if !env.mine(i) {
                    continue;
                }
                st.hist("adjacent-precedence-table");
                st.nontrivial(&format!("adj:{}:{}:{}", q, d, right));
                let reg_step = json!({"op": "reg_op", "spec": {"kind": "infix", "name": "nw", "prec": p, "right": right}, "id": 77, "thread": 0});
                let mut steps = vec![reg_step];
                for text in [
                    format!("a {} b nw c", op),
                    format!("a nw b {} c", op),
                    format!("a nw b nw c"),
                    format!("a {} b nw c {} d nw e", op, op),
                    format!("a nw b {} c nw d", op),
                    format!("a not nw b {} c", op),
                    format!("a nw b ? c {} d : e nw g", op),
                ] {
                    steps.push(json!({"op": "parse", "text": text, "thread": 0}));
                }
                steps.push(json!({"op": "exec", "text": format!("1 nw 2 nw 3"), "ctx": {}, "thread": 0}));
                run_history(1, &steps, env, st)?;
            }
        }
    }
    // a handler that runs while the arguments of a call are evaluated (re-)registers the callee:
    // the call must reach the handler registered last
    for (k, steps) in [
        vec![
            json!({"op": "reg_fn", "name": "fb", "id": 21, "thread": 0}),
            json!({"op": "reg_fn", "name": "fa", "id": 22, "thread": 0, "registers": {"name": "fb", "id": 23}}),
            json!({"op": "exec", "text": "fb ( fa ( 1 ) )", "ctx": {}, "thread": 0}),
            json!({"op": "exec", "text": "fb ( 2 )", "ctx": {}, "thread": 0}),
        ],
        vec![
            json!({"op": "reg_fn", "name": "fa", "id": 24, "thread": 0, "registers": {"name": "late", "id": 25}}),
            json!({"op": "exec", "text": "late ( fa ( 1 ) )", "ctx": {}, "thread": 0}),
        ],
        // a name changes the kind of its binding within one program: `f = 5` turns a context
        // function into a variable (the call then reaches the global f), and back
        vec![
            json!({"op": "reg_fn", "name": "f", "id": 31, "thread": 0}),
            json!({"op": "exec", "text": "[ f ( 1 ) , f = 5 , f ( 2 ) , f ]", "ctx": {"f": {"fn": 32}}, "thread": 0}),
            json!({"op": "exec", "text": "f = 5 ; [ f ( 3 ) , f ]", "ctx": {"f": {"fn": 33}}, "thread": 0}),
            json!({"op": "exec", "text": "g = 1 ; g ( 4 )", "ctx": {"g": {"fn": 34}}, "thread": 0}),
            json!({"op": "exec", "text": "sum = 2 ; [ sum ( 4 , 5 ) , sum ]", "ctx": {"sum": {"fn": 35}}, "thread": 0}),
        ],
        vec![
            json!({"op": "reg_fn", "name": "fa", "id": 26, "thread": 0, "registers": {"name": "min", "id": 27}}),
            json!({"op": "exec", "text": "min ( fa ( 1 ) , 5 )", "ctx": {}, "thread": 0}),
            json!({"op": "exec", "text": "min ( 3 , 4 )", "ctx": {}, "thread": 0}),
        ],
    ]
    .into_iter()
    .enumerate()
    {
        if env.mine(500 + k as u64) {
            st.hist("re-entrant-registration-table");
            st.nontrivial(&format!("reentrant:{}", k));
            run_history(1, &steps, env, st)?;
        }
    }
    // built-in assignment operators replaced by SETTER-typed handlers must be used for every
    // later assignment
    for (k, name) in ["=", "+=", "|=", "becomes"].iter().enumerate() {
        if env.mine(600 + k as u64) {
            st.hist("setter-override-table");
            st.nontrivial(&format!("setter:{}", name));
            let steps = vec![
                json!({"op": "reg_op", "spec": {"kind": "infix", "name": name, "prec": 20, "right": true, "setter": true}, "id": 91, "thread": 0}),
                json!({"op": "exec", "text": format!("x {} 5 ; x", name), "ctx": {"x": {"var": V::int(1).to_json()}}, "thread": 0}),
                json!({"op": "exec", "text": format!("y {} 2 ; z = y ; [ y , z ]", name), "ctx": {}, "thread": 0}),
            ];
            run_history(1, &steps, env, st)?;
        }
    }
    // distinct precedences near the top of the allowed range must stay distinct
    for (lo, hi) in [(999_999_999i64, 1_000_000_000i64), (600_000_000, 900_000_000), (536_870_911, 536_870_912), (536_870_912, 536_870_913), (1_000_000, 1_000_001)] {
        for (rl, rh) in [(false, false), (true, true), (false, true)] {
            i += 1;
            if !env.mine(i) {
                continue;
            }
            st.hist("large-precedence-table");
            st.nontrivial(&format!("large:{}:{}:{}:{}", lo, hi, rl, rh));
            let steps = vec![
                json!({"op": "reg_op", "spec": {"kind": "infix", "name": "lw", "prec": lo, "right": rl}, "id": 71, "thread": 0}),
                json!({"op": "reg_op", "spec": {"kind": "infix", "name": "hg", "prec": hi, "right": rh}, "id": 72, "thread": 0}),
                json!({"op": "parse", "text": "a lw b hg c", "thread": 0}),
                json!({"op": "parse", "text": "a hg b lw c", "thread": 0}),
                json!({"op": "parse", "text": "a lw b hg c lw d hg e", "thread": 0}),
                json!({"op": "parse", "text": "a lw b lw c ; a hg b hg c", "thread": 0}),
                json!({"op": "parse", "text": "a + b lw c * d hg e in g", "thread": 0}),
                json!({"op": "exec", "text": "10 lw 2 hg 3", "ctx": {}, "thread": 0}),
            ];
            run_history(1, &steps, env, st)?;
        }
    }
    // overrides of built-ins as the very first engine call of the process
    for first in [
        json!({"op": "reg_fn", "name": "min", "id": 61, "thread": 0}),
        json!({"op": "reg_fn", "name": "sum", "id": 62, "thread": 0}),
        json!({"op": "reg_op", "spec": {"kind": "prefix", "name": "-", "prec": 0, "right": false}, "id": 63, "thread": 0}),
        json!({"op": "reg_op", "spec": {"kind": "postfix", "name": "++", "prec": 0, "right": false}, "id": 64, "thread": 0}),
        json!({"op": "reg_op", "spec": {"kind": "infix", "name": "+", "prec": 115, "right": false}, "id": 65, "thread": 0}),
        json!({"op": "reg_op", "spec": {"kind": "infix", "name": "in", "prec": 45, "right": false}, "id": 66, "thread": 0}),
        json!({"op": "reg_op", "spec": {"kind": "infix", "name": "&&", "prec": 50, "right": false}, "id": 67, "thread": 0}),
    ] {
        i += 1;
        if !env.mine(i) {
            continue;
        }
        st.hist("builtin-override-before-first-use");
        st.nontrivial(&format!("first:{}", first));
        let steps = vec![
            first,
            json!({"op": "exec", "text": "[ min ( 3 , 1 ) , sum ( 1 , 2 ) , - 4 , 5 ++ , 1 + 2 * 3 , 1 in [ 1 ] , true && false ]", "ctx": {}, "thread": 0}),
            json!({"op": "parse", "text": "a + b * c - d in e && g", "thread": 0}),
            json!({"op": "exec", "text": "[ min ( 3 , 1 ) , sum ( 1 , 2 ) ]", "ctx": {"min": {"fn": 901}, "sum": {"var": V::int(5).to_json()}}, "thread": 0}),
        ];
        run_history(1, &steps, env, st)?;
    }
    // "once register_* has returned, every later evaluation uses the handler registered last",
    // also when the registration raced with another thread's first use of the engine: the
    // initialising thread is parked between its stages while built-ins are overridden
    for stage in 1..=3u64 {
        for a in ["parse:1+2", "exec:1+2"] {
            i += 1;
            if !env.mine(i) {
                continue;
            }
            st.hist("override-during-first-use");
            crate::props::c13::run_held(a, stage, &["reg_fn:min", "reg_infix:+", "reg_prefix:-", "reg_postfix:++", "reg_fn:fresh", "exec:min(1,2)"], env, st).map_err(|mut f| {
                f.detail = format!("(held-initialisation scenario, replay with ./check C13 --replay) {}", f.detail);
                f
            })?;
        }
    }
    // ... and while another thread keeps re-registering the name: a name that was registered
    // before, during and after an evaluation always dispatches to one of its handlers (a single
    // use per program, so the known torn-registration finding of C13 cannot occur)
    for kind in ["function", "prefix", "infix", "postfix"] {
        for threads in [2usize, 4] {
            i += 1;
            if !env.mine(i) {
                continue;
            }
            st.hist("evaluation-during-re-registration");
            crate::props::c13::run_regrace(kind, 0, threads, env.tier.pick(3_000, 60_000), false, env, st).map_err(|mut f| {
                f.detail = format!("(re-registration race, replay with ./check C13 --replay) {}", f.detail);
                f
            })?;
        }
    }
    st.set_extra("exhaustive_adjacent_precedence_table", json!(true));
    Ok(())
}

fn replay(case: &J, st: &mut Stats, env: &Env) -> CaseResult {
    if case.get("mode").is_some() {
        // a held-initialisation or re-registration scenario borrowed from C13
        return crate::props::c13::replay(case, st, env);
    }
    let steps: Vec<J> = case["steps"].as_array().cloned().unwrap_or_default();
    run_history(case["threads"].as_u64().unwrap_or(1) as usize, &steps, env, st)
}
