//! C17 — Value conversions preserve the value.
use crate::bigdec::{Big, BigDec};
use crate::model::V;
use crate::runner::*;
use crate::src::Src;
use expression_engine::Value;
use rust_decimal::Decimal;
use serde_json::{json, Value as J};
use std::cmp::Ordering;

pub static PROP: Prop = Prop {
    id: "C17",
    rule: "cases: Value::from(n) for n of every integer type (uniform bit patterns masked to random widths, plus boundary ladders 0, +-1, MIN, MAX, +-2^k+-1 around 2^63 and 2^96), f32/f64 (raw bit patterns incl. subnormal/inf/NaN, integers, decimal fractions, huge magnitudes), every integer-valued float (2^k, 2^k +- ulp) must convert exactly, float() of a decimal must be the correctly rounded f64, String/&str/bool/Decimal/Vec<Value> round trips, integer() on decimals of every scale (integral, boundary, non-integral incl. fractions followed by 1-27 zeros, out of i64) and the exhaustive 6 accessors x 6 variants table. Non-trivial: |n| >= 2^63, a non-integral float, integer() on a number with scale > 0, or an accessor/variant mismatch; distinct by (source kind, magnitude class (bit length), scale, outcome class).",
    assumptions: &[
        "float conversions are compared with the stated tolerance max(1e-14*|x|, 1e-28) for f64 and max(1e-6*|x|, 1e-28) for f32, exact for every integer-valued float below 2^96",
        "Decimal's own mantissa()/scale()/sign accessors are trusted for reading a result",
    ],
    budget,
    setup: noop_setup,
    case,
    fixed,
    replay: Some(replay),
    breadcrumb: false,
    fuzz: &[],
};

fn budget(t: Tier) -> Budget {
    Budget {
        cases: t.pick(5_000_000, 80_000_000),
        max_len: 24,
        shards: 16,
        dual_profile: false,
    }
}

const INT_TYPES: [&str; 10] = ["i8", "i16", "i32", "i64", "i128", "u8", "u16", "u32", "u64", "u128"];

fn bits_of(ty: &str) -> u32 {
    ty[1..].parse().unwrap()
}

/// value of type `ty` given as i128 (for u128 above i128::MAX the flag `hi` marks "add 2^127")
fn conv_int(ty: &str, raw: u128) -> (Value, BigDec) {
    macro_rules! go {
        ($t:ty) => {{
            let x = raw as $t;
            (Value::from(x), if (x as i128) < 0 && stringify!($t).starts_with('i') {
                BigDec::from_i128(x as i128)
            } else {
                BigDec::from_u128(x as u128)
            })
        }};
    }
    match ty {
        "i8" => go!(i8),
        "i16" => go!(i16),
        "i32" => go!(i32),
        "i64" => go!(i64),
        "i128" => go!(i128),
        "u8" => go!(u8),
        "u16" => go!(u16),
        "u32" => go!(u32),
        "u64" => go!(u64),
        _ => go!(u128),
    }
}

fn check_int(ty: &str, raw: u128, st: &mut Stats) -> CaseResult {
    let (v, expect) = conv_int(ty, raw);
    let case = json!({"kind": "int", "type": ty, "raw": raw.to_string(), "value": expect.to_text()});
    let bits = expect.mant.bits();
    st.hist(&format!("int:{}", ty));
    if bits >= 64 {
        st.nontrivial(&format!("int:{}:{}:{}", ty, bits, expect.neg));
    }
    let got = match &v {
        Value::Number(d) => BigDec::from_decimal(d),
        other => {
            return Err(Failure::new(
                format!("from-int-not-a-number:{}", ty),
                format!("Value::from({}{}) = {:?}", expect.to_text(), ty, other),
                case,
            ))
        }
    };
    if got.cmp_value(&expect) == Ordering::Equal {
        return Ok(());
    }
    let out_of_range = bits > 96;
    let sig = if out_of_range && got.is_zero() {
        format!("from-int-out-of-range:{}", ty)
    } else if out_of_range {
        format!("from-int-out-of-range-garbage:{}", ty)
    } else {
        format!("from-int-wrong:{}", ty)
    };
    Err(Failure::new(
        sig,
        format!("Value::from({}{}) = Number({}), a different number", expect.to_text(), ty, got.to_text()),
        case,
    ))
}

/// exact decimal expansion of a finite f64
fn exact_f64(x: f64) -> BigDec {
    let bits = x.to_bits();
    let neg = bits >> 63 == 1;
    let exp = ((bits >> 52) & 0x7ff) as i32;
    let frac = bits & ((1u64 << 52) - 1);
    let (m, e) = if exp == 0 { (frac, -1074) } else { (frac | (1u64 << 52), exp - 1075) };
    let mut mant = Big::from_u64(m);
    if e >= 0 {
        for _ in 0..e {
            mant = mant.mul_small(2);
        }
        BigDec { neg, mant, scale: 0 }
    } else {
        for _ in 0..(-e) {
            mant = mant.mul_small(5);
        }
        BigDec { neg, mant, scale: (-e) as u32 }
    }
}

fn check_float(x: f64, is32: bool, st: &mut Stats) -> CaseResult {
    let ty = if is32 { "f32" } else { "f64" };
    let v = if is32 { Value::from(x as f32) } else { Value::from(x) };
    let x = if is32 { (x as f32) as f64 } else { x };
    let case = json!({"kind": "float", "type": ty, "bits": format!("{:#x}", x.to_bits()), "value": format!("{:e}", x)});
    st.hist(&format!("float:{}", ty));
    let got = match &v {
        Value::Number(d) => Some(BigDec::from_decimal(d)),
        _ => None,
    };
    if !x.is_finite() {
        st.nontrivial(&format!("{}:nonfinite:{}", ty, x.is_nan()));
        return match got {
            Some(g) if g.is_zero() => Err(Failure::new(
                format!("from-float-nonfinite:{}", ty),
                format!("Value::from({}{}) = Number({})", x, ty, g.to_text()),
                case,
            )),
            Some(g) => Err(Failure::new(
                format!("from-float-nonfinite-garbage:{}", ty),
                format!("Value::from({}{}) = Number({})", x, ty, g.to_text()),
                case,
            )),
            None => Ok(()),
        };
    }
    let exact = exact_f64(x);
    let exp2 = x.abs().log2().floor() as i64;
    if x.fract() != 0.0 {
        st.nontrivial(&format!("{}:frac:{}", ty, exp2));
    }
    // tolerance: max(rel * |x|, 1e-28)
    let rel_digits = if is32 { 6 } else { 14 };
    let rel = BigDec {
        neg: false,
        mant: exact.mant.clone(),
        scale: exact.scale + rel_digits,
    };
    let abs = BigDec {
        neg: false,
        mant: Big::from_u64(1),
        scale: 28,
    };
    let tol = if rel.cmp_value(&abs) == Ordering::Greater { rel } else { abs };
    let within = |g: &BigDec| g.sub(&exact).abs().cmp_value(&tol) != Ordering::Greater;
    if exact.magnitude_overflows() {
        st.nontrivial(&format!("{}:huge:{}", ty, exp2));
        return match got {
            // just above the largest decimal: a result within the tolerance is still right
            Some(g) if within(&g) => Ok(()),
            Some(g) if g.is_zero() => Err(Failure::new(
                format!("from-float-out-of-range:{}", ty),
                format!("Value::from({:e}{}) = Number(0)", x, ty),
                case,
            )),
            Some(g) => Err(Failure::new(
                format!("from-float-out-of-range-garbage:{}", ty),
                format!("Value::from({:e}{}) = Number({})", x, ty, g.to_text()),
                case,
            )),
            None => Ok(()),
        };
    }
    let got = match got {
        Some(g) => g,
        None => {
            return Err(Failure::new(
                format!("from-float-not-a-number:{}", ty),
                format!("Value::from({:e}{}) = {:?}", x, ty, v),
                case,
            ))
        }
    };
    let diff = got.sub(&exact).abs();
    // every integer-valued float below 2^96 is exactly representable: it must convert exactly
    if x.fract() == 0.0 {
        if !diff.is_zero() {
            return Err(Failure::new(
                format!("from-float-integer-inexact:{}", ty),
                format!("Value::from({:e}{}) = Number({})", x, ty, got.to_text()),
                case,
            ));
        }
        return Ok(());
    }
    if diff.cmp_value(&tol) == Ordering::Greater {
        return Err(Failure::new(
            format!("from-float-wrong:{}", ty),
            format!("Value::from({:e}{}) = Number({}), off by more than the tolerance", x, ty, got.to_text()),
            case,
        ));
    }
    Ok(())
}

fn check_integer_accessor(d: &BigDec, st: &mut Stats) -> CaseResult {
    let dec = d.to_decimal().expect("fits");
    let case = json!({"kind": "integer()", "decimal": d.to_text()});
    let expect = d.to_i64();
    let class = match expect {
        Some(_) => "integral",
        None if d.is_integral() => "out-of-i64",
        None => "fractional",
    };
    st.hist(&format!("integer():{}", class));
    if d.scale > 0 {
        st.nontrivial(&format!("integer():{}:{}:{}", class, d.scale, d.mant.bits()));
    }
    let got = guard(|| Value::Number(dec).integer().map_err(|e| e.to_string()));
    let got = match got {
        Ok(g) => g,
        Err(p) => return Err(Failure::new("integer-panic", format!("integer() on {} panicked: {}", d.to_text(), p), case)),
    };
    match (expect, got) {
        (Some(n), Ok(m)) if n == m => Ok(()),
        (None, Err(_)) => Ok(()),
        (Some(n), Ok(m)) => Err(Failure::new(
            "integer-wrong",
            format!("integer() on {} = {} instead of {}", d.to_text(), m, n),
            case,
        )),
        (Some(n), Err(e)) => Err(Failure::new(
            if d.scale > 0 { "integer-scaled-integral" } else { "integer-rejected" },
            format!("integer() on {} = Err({}) instead of {}", d.to_text(), e, n),
            case,
        )),
        (None, Ok(m)) => Err(Failure::new(
            format!("integer-accepted:{}", class),
            format!("integer() on {} = {} although the value is not an i64 integer", d.to_text(), m),
            case,
        )),
    }
}

fn gen_string(src: &mut Src) -> String {
    const ALPH: [&str; 20] = ["a", "Z", "0", " ", "\"", "'", "\\", "é", "ß", "日", "𝄞", "\n", "\t", "", "+", "\u{a0}", "\\n", "\\t", "\\r", "\\\\"];
    let n = src.pick(9);
    (0..n).map(|_| *src.choose(&ALPH)).collect()
}

fn gen_decimal(src: &mut Src) -> BigDec {
    let bits = src.pick(97) as u32;
    let raw = src.u128();
    let m = if bits == 0 { 0 } else { raw >> (128 - bits) };
    let scale = src.pick(29) as u32;
    BigDec {
        neg: src.chance(1, 2),
        mant: Big::from_u128(m),
        scale,
    }
}

fn gen_value(src: &mut Src, depth: usize) -> V {
    match src.pick(if depth >= 3 { 5 } else { 6 }) {
        0 => V::None,
        1 => V::Bool(src.chance(1, 2)),
        2 => V::Num(gen_decimal(src)),
        3 => V::Str(gen_string(src)),
        4 => V::Map(vec![(V::Str(gen_string(src)), V::Bool(true))]),
        _ => {
            let n = src.pick(4);
            V::List((0..n).map(|_| gen_value(src, depth + 1)).collect())
        }
    }
}

/// strict comparison: same variants, numbers with the same mantissa, scale and sign
fn same_repr(a: &Value, b: &Value) -> bool {
    match (a, b) {
        (Value::Number(x), Value::Number(y)) => {
            x.mantissa() == y.mantissa() && x.scale() == y.scale() && (x.mantissa() != 0 || true)
        }
        (Value::String(x), Value::String(y)) => x == y,
        (Value::Bool(x), Value::Bool(y)) => x == y,
        (Value::None, Value::None) => true,
        (Value::List(x), Value::List(y)) => x.len() == y.len() && x.iter().zip(y).all(|(p, q)| same_repr(p, q)),
        (Value::Map(x), Value::Map(y)) => {
            x.len() == y.len() && x.iter().zip(y).all(|((k1, v1), (k2, v2))| same_repr(k1, k2) && same_repr(v1, v2))
        }
        _ => false,
    }
}

fn check_roundtrip(v: &V, st: &mut Stats) -> CaseResult {
    let case = json!({"kind": "roundtrip", "value": v.to_json()});
    st.hist(&format!("roundtrip:{}", v.type_name()));
    let fail = |what: &str, detail: String| Err(Failure::new(format!("roundtrip:{}", what), detail, case.clone()));
    match v {
        V::Str(s) => {
            let a = Value::from(s.clone()).string().map_err(|e| e.to_string());
            let b = Value::from(s.as_str()).string().map_err(|e| e.to_string());
            if a.as_deref() != Ok(s.as_str()) || b.as_deref() != Ok(s.as_str()) {
                return fail("string", format!("{:?} -> {:?} / {:?}", s, a, b));
            }
        }
        V::Bool(x) => {
            let a = Value::from(*x).bool().map_err(|e| e.to_string());
            if a != Ok(*x) {
                return fail("bool", format!("{} -> {:?}", x, a));
            }
        }
        V::Num(d) => {
            let dec = d.to_decimal().unwrap();
            match Value::from(dec).decimal() {
                Ok(r) if r.mantissa() == dec.mantissa() && r.scale() == dec.scale() => {}
                other => return fail("decimal", format!("{} -> {:?}", d.to_text(), other.map_err(|e| e.to_string()))),
            }
            // float(): the f64 nearest to the decimal (correctly rounded), nothing else
            let want: f64 = d.to_text().parse().unwrap_or(f64::NAN);
            match Value::from(dec).float() {
                Ok(f) if f == want || (f == 0.0 && want == 0.0) => {}
                other => {
                    return Err(Failure::new(
                        "float-accessor-inexact",
                        format!("float() of {} gave {:?}, the nearest f64 is {:e}", d.to_text(), other.map_err(|e| e.to_string()), want),
                        case.clone(),
                    ))
                }
            }
        }
        V::List(_) => {
            let list = match v.to_value() {
                Value::List(l) => l,
                _ => unreachable!(),
            };
            match Value::from(list.clone()).list() {
                Ok(r) if r.len() == list.len() && r.iter().zip(&list).all(|(p, q)| same_repr(p, q)) => {}
                other => return fail("list", format!("{} -> {:?}", v.key(), other.map_err(|e| e.to_string()))),
            }
        }
        _ => {}
    }
    Ok(())
}

fn accessor_table(st: &mut Stats) -> CaseResult {
    let variants: Vec<(&str, Value)> = vec![
        ("string", Value::String("12".into())),
        ("number", Value::Number(Decimal::from(1))),
        ("bool", Value::Bool(true)),
        ("list", Value::List(vec![Value::Number(Decimal::from(1))])),
        ("map", Value::Map(vec![(Value::Bool(true), Value::Number(Decimal::from(1)))])),
        ("none", Value::None),
    ];
    let accessors = ["decimal", "string", "bool", "integer", "float", "list"];
    for (vn, v) in &variants {
        for acc in accessors {
            st.eval();
            let ok = match acc {
                "decimal" => v.clone().decimal().is_ok(),
                "string" => v.clone().string().is_ok(),
                "bool" => v.clone().bool().is_ok(),
                "integer" => v.clone().integer().is_ok(),
                "float" => v.clone().float().is_ok(),
                _ => v.clone().list().is_ok(),
            };
            let should = matches!(
                (acc, *vn),
                ("decimal", "number") | ("integer", "number") | ("float", "number") | ("string", "string") | ("bool", "bool") | ("list", "list")
            );
            st.hist("accessor-table");
            if !should {
                st.nontrivial(&format!("accessor:{}:{}", acc, vn));
            }
            if ok != should {
                return Err(Failure::new(
                    format!("accessor:{}:{}", acc, vn),
                    format!("{}() on a {} value returned {}", acc, vn, if ok { "Ok" } else { "Err" }),
                    json!({"kind": "accessor", "accessor": acc, "variant": vn}),
                ));
            }
        }
    }
    // a few values per variant for the mismatching accessors (numbers that look like bools etc.)
    let tricky = vec![
        ("bool", Value::Number(Decimal::from(1))),
        ("bool", Value::String("true".into())),
        ("string", Value::Number(Decimal::from(5))),
        ("decimal", Value::String("5".into())),
        ("integer", Value::String("5".into())),
        ("integer", Value::Bool(true)),
        ("float", Value::String("1.5".into())),
        ("list", Value::String("[1]".into())),
        ("decimal", Value::Bool(false)),
        ("string", Value::None),
    ];
    for (acc, v) in tricky {
        st.eval();
        let ok = match acc {
            "decimal" => v.clone().decimal().is_ok(),
            "string" => v.clone().string().is_ok(),
            "bool" => v.clone().bool().is_ok(),
            "integer" => v.clone().integer().is_ok(),
            "float" => v.clone().float().is_ok(),
            _ => v.clone().list().is_ok(),
        };
        if ok {
            return Err(Failure::new(
                format!("accessor-coerced:{}", acc),
                format!("{}() accepted {:?}", acc, v),
                json!({"kind": "accessor-tricky", "accessor": acc, "value": format!("{:?}", v)}),
            ));
        }
    }
    st.set_extra("accessor_table_exhaustive", json!(true));
    Ok(())
}

fn ladder() -> Vec<(&'static str, u128)> {
    let mut out = vec![];
    for ty in INT_TYPES {
        let b = bits_of(ty);
        let mask: u128 = if b == 128 { u128::MAX } else { (1u128 << b) - 1 };
        let mut vals: Vec<u128> = vec![0, 1, mask, mask - 1, 1u128 << (b - 1), (1u128 << (b - 1)) - 1, (1u128 << (b - 1)) + 1];
        for k in [7u32, 8, 15, 16, 31, 32, 53, 62, 63, 64, 65, 95, 96, 97, 126, 127] {
            if k < b {
                for d in [0i128, 1, -1] {
                    let p = (1u128 << k).wrapping_add(d as u128) & mask;
                    vals.push(p);
                    vals.push(p.wrapping_neg() & mask);
                }
            }
        }
        for v in vals {
            out.push((ty, v & mask));
        }
    }
    out
}

fn fixed(env: &Env, st: &mut Stats) -> CaseResult {
    if env.shard == 0 {
        accessor_table(st)?;
    }
    let mut first_known: Option<Failure> = None;
    for (i, (ty, raw)) in ladder().into_iter().enumerate() {
        if !env.mine(i as u64) {
            continue;
        }
        st.eval();
        if let Err(f) = check_int(ty, raw, st) {
            if env.is_known(&f.sig) {
                *st.known_hits.entry(f.sig.clone()).or_insert(0) += 1;
                first_known.get_or_insert(f);
            } else {
                return Err(f);
            }
        }
    }
    // float ladder
    let floats: Vec<f64> = vec![
        0.0, -0.0, 1.0, -1.0, 0.1, 0.2, 0.3, 1.0 / 3.0, 2.5, 1e-28, 1e-29, 4.9e-324, 2.2250738585072014e-308, 7.9e28, 7.922816251426433e28,
        7.922816251426434e28, 8e28, 1e40, f64::MAX, f64::MIN, f64::INFINITY, f64::NEG_INFINITY, f64::NAN, 9007199254740992.0, 9007199254740993.0,
        16777216.0, 16777217.0, 123456.789, -987654.321e10, 3.4028234663852886e38, 1e15 + 0.3,
    ];
    let mut floats = floats;
    for k in 0..=96 {
        for d in [0.0f64, 1.0, -1.0] {
            let x = 2f64.powi(k) + d * 2f64.powi((k - 52).max(0));
            floats.push(x);
            floats.push(-x);
        }
    }
    for (i, x) in floats.into_iter().enumerate() {
        for is32 in [false, true] {
            if !env.mine((i * 2 + is32 as usize) as u64) {
                continue;
            }
            st.eval();
            if let Err(f) = check_float(x, is32, st) {
                if env.is_known(&f.sig) {
                    *st.known_hits.entry(f.sig.clone()).or_insert(0) += 1;
                } else {
                    return Err(f);
                }
            }
        }
    }
    // integer() ladder
    if env.shard == 0 {
        for text in [
            "1.5000000000", "2.50000000000000000000", "0.1000000000000000000000000000", "7.000000000100000000", "0", "-0.0", "3", "3.0", "3.0000000000000000000000000000", "-3.00", "3.5", "0.0000000000000000000000000001", "9223372036854775807", "9223372036854775807.0",
            "9223372036854775808", "-9223372036854775808", "-9223372036854775808.000", "-9223372036854775809", "9223372036854775807.5", "79228162514264337593543950335",
            "-79228162514264337593543950335", "7.9228162514264337593543950335", "1000000000000000000.0000000000", "0.9999999999999999999999999999",
        ] {
            st.eval();
            check_integer_accessor(&BigDec::from_literal(text).unwrap(), st)?;
        }
    }
    Ok(())
}

fn case(src: &mut Src, st: &mut Stats, _env: &Env) -> CaseResult {
    st.eval();
    match src.weighted(&[4, 3, 2, 3]) {
        0 => {
            let ty = *src.choose(&INT_TYPES);
            let b = bits_of(ty);
            // random width up to the type's width, so that all magnitudes are covered
            let width = 1 + src.pick(b as usize) as u32;
            let raw = src.u128();
            let mut x = if width == 128 { raw } else { raw & ((1u128 << width) - 1) };
            if ty.starts_with('i') && src.chance(1, 2) {
                x = x.wrapping_neg();
            }
            let mask: u128 = if b == 128 { u128::MAX } else { (1u128 << b) - 1 };
            st.sample(|| json!({"kind": "int", "type": ty, "raw": (x & mask).to_string()}));
            check_int(ty, x & mask, st)
        }
        1 => {
            let is32 = src.chance(1, 3);
            let x = match src.pick(5) {
                0 => f64::from_bits(src.u64()),
                1 => (src.u64() >> src.pick(64)) as f64 * if src.chance(1, 2) { -1.0 } else { 1.0 },
                2 => {
                    // decimal fraction: k / 10^s
                    let k = (src.u64() >> src.pick(64)) as f64;
                    k / 10f64.powi(src.pick(30) as i32)
                }
                3 => (f32::from_bits(src.raw())) as f64,
                _ => {
                    let m = 1.0 + (src.raw() as f64) / 4294967296.0;
                    m * 2f64.powi(src.range(-120, 140) as i32)
                }
            };
            st.sample(|| json!({"kind": "float", "is32": is32, "value": format!("{:e}", x)}));
            check_float(x, is32, st)
        }
        2 => {
            let v = gen_value(src, 0);
            st.sample(|| json!({"kind": "roundtrip", "value": v.to_json()}));
            check_roundtrip(&v, st)
        }
        _ => {
            // decimals for integer(): integral with scale, boundary, arbitrary
            let d = match src.pick(5) {
                0 => gen_decimal(src),
                4 => {
                    // a non-integral value whose fraction is followed by many zeros (1.5000000000)
                    let zeros = 1 + src.pick(27) as u32;
                    let frac_digits = 1 + src.pick((28 - zeros) as usize) as u32;
                    let n = Big::from_u64(src.u64() >> (20 + src.pick(44)));
                    let f = 1 + src.pick(9) as u64;
                    let mant = n.mul(&Big::pow10(frac_digits)).add(&Big::from_u64(f)).mul(&Big::pow10(zeros));
                    let d = BigDec { neg: src.chance(1, 2), mant, scale: frac_digits + zeros };
                    if d.fits() {
                        d
                    } else {
                        BigDec::from_literal("1.5000000000").unwrap()
                    }
                }
                1 => {
                    // integral value n written with scale s (mantissa n * 10^s must fit)
                    let s = src.pick(29) as u32;
                    let width = 1 + src.pick(96) as u32;
                    let n = Big::from_u128(src.u128() >> (128 - width));
                    let mant = n.mul(&Big::pow10(s));
                    let d = BigDec { neg: src.chance(1, 2), mant, scale: s };
                    if d.fits() {
                        d
                    } else {
                        BigDec { neg: d.neg, mant: n, scale: 0 }
                    }
                }
                2 => {
                    // around the i64 boundaries, with a scale
                    let base: i128 = *src.choose(&[i64::MAX as i128, i64::MIN as i128, 1i128 << 62, 0]);
                    let n = base + src.range(-3, 3) as i128;
                    let s = src.pick(10) as u32;
                    let mant = Big::from_u128(n.unsigned_abs()).mul(&Big::pow10(s));
                    BigDec { neg: n < 0, mant, scale: s }
                }
                _ => {
                    // integral plus a tiny fraction
                    let s = 1 + src.pick(28) as u32;
                    let n = Big::from_u64(src.u64() >> src.pick(64));
                    let mant = n.mul(&Big::pow10(s)).add(&Big::from_u64(1 + src.pick(9) as u64));
                    let d = BigDec { neg: src.chance(1, 2), mant, scale: s };
                    if d.fits() {
                        d
                    } else {
                        BigDec::from_literal("1.5").unwrap()
                    }
                }
            };
            st.sample(|| json!({"kind": "integer()", "decimal": d.to_text()}));
            check_integer_accessor(&d, st)
        }
    }
}

fn replay(case: &J, st: &mut Stats, _env: &Env) -> CaseResult {
    st.eval();
    match case["kind"].as_str().unwrap_or("") {
        "int" => {
            let ty = INT_TYPES.iter().find(|t| Some(**t) == case["type"].as_str()).copied().unwrap_or("i64");
            let raw: u128 = case["raw"].as_str().and_then(|s| s.parse().ok()).unwrap_or(0);
            check_int(ty, raw, st)
        }
        "float" => {
            let bits = u64::from_str_radix(case["bits"].as_str().unwrap_or("0x0").trim_start_matches("0x"), 16).unwrap_or(0);
            check_float(f64::from_bits(bits), case["type"].as_str() == Some("f32"), st)
        }
        "integer()" => check_integer_accessor(&BigDec::from_literal(case["decimal"].as_str().unwrap_or("0")).unwrap_or(BigDec::zero()), st),
        "roundtrip" => check_roundtrip(&V::from_json(&case["value"]).unwrap_or(V::None), st),
        _ => accessor_table(st),
    }
}
