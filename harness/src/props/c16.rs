//! C16 — evaluations are deterministic and isolated from one another.
use crate::gen_sem::*;
use crate::handlers;
use crate::model::{sexp_ast, Binding, Ev, Model, R, V};
use crate::props::sem::*;
use crate::runner::*;
use crate::src::Src;
use crate::syntax::{parse_text, OpTable};
use expression_engine::verif_hooks::locks_free;
use expression_engine::{execute, parse_expression, register_infix_op, InfixOpAssociativity, InfixOpType, Value};
use serde_json::{json, Value as J};
use std::collections::BTreeMap;
use std::sync::mpsc::{channel, Receiver, Sender};
use std::sync::{Arc, Barrier};
use std::time::Duration;

pub static PROP: Prop = Prop {
    id: "C16",
    rule: "cases: a pool of 2-6 (program, context recipe) pairs that deliberately share the names v0..v3 (statement programs that assign, read and fail midway; expression trees; texts that differ in one literal or are identical with different contexts; flat texts around a dynamically re-registered infix operator vh_dyn; a third of the later entries evaluate an earlier entry from inside a context function reached by the bare name `nz`, i.e. nested evaluation) and a history of 6-30 steps over 1-4 persistent worker threads: exec(i) with a fresh context, parse-only(i), parse-once-exec-n-times(i) on equal fresh contexts, re-registration of vh_dyn with another precedence/associativity, parse(flat text) compared with the reference parser under the registration made last, and bursts in which all threads run steps concurrently behind a barrier. Oracle: the solo outcome of each pool entry (result and final context) from the reference evaluator (or, where that is unspecified, the first solo run) must be the outcome of every occurrence on every thread; parse results depend only on the text and the last registration; after parse-only steps no lock is held and no registered handler has been invoked (a third of the histories use the harness's logging functions and operators, with literal and computed arguments). 1 case in 64 also cross-checks the solo outcome in a fresh child process. One history in eight first takes a word never seen before, uses it as a plain name (variable, call, in a parse on another thread - any subset), registers it as postfix, prefix or infix operator and evaluates a program that needs the operator: the result must be the one the registration requires. Fixed part: held-initialisation scenarios (results must not depend on another thread's concurrent first use) and depth sweeps (1..320 nested parens/brackets/calls/prefixes) evaluated, parsed only, and evaluated again on one thread must repeat exactly. Non-trivial: the history runs >= 2 different programs that share an assigned name with a repetition after a different program, or a parse on one thread after a re-registration on another; distinct by (pool shape, schedule shape).",
    assumptions: &[
        "the harness's own registrations (vh_*) are part of `the registrations made so far` and are modelled",
        "concurrent bursts use free-running threads: interleavings are sampled, not enumerated",
    ],
    budget,
    setup: crate::handlers::setup,
    case,
    fixed,
    replay: None,
    breadcrumb: true,
    fuzz: &[],
};

fn budget(t: Tier) -> Budget {
    Budget {
        cases: t.pick(100_000, 1_200_000),
        max_len: 400,
        shards: 16,
        dual_profile: false,
    }
}

#[derive(Clone)]
enum Entry {
    /// `nested`: while this program runs, a context function of it (bare name `nz`) evaluates
    /// that earlier pool entry with its own context
    Prog { text: String, sc: SemCtx, expect: Option<(String, String)>, nested: Option<usize> },
    Flat { text: String },
}

#[derive(Clone)]
enum Cmd {
    Exec(usize),
    ParseOnly(usize),
    ExecMany(usize, usize),
    Reg(i32, bool),
    ParseFlat(usize),
    Stop,
}

#[derive(Clone, Debug, PartialEq)]
enum Rep {
    Outcome(String, String),
    Many(Vec<(String, String)>),
    Parsed(String),
    Sexp(String),
    Done,
    Panic(String),
    Nested(String),
}

fn ctx_string(read: &BTreeMap<String, Option<V>>) -> String {
    read.iter().map(|(k, v)| format!("{}={}", k, v.as_ref().map(|x| x.key()).unwrap_or_else(|| "-".into()))).collect::<Vec<_>>().join(";")
}

fn model_ctx_string(m: &BTreeMap<String, Binding>, names: &[String]) -> String {
    names
        .iter()
        .map(|k| {
            format!(
                "{}={}",
                k,
                match m.get(k) {
                    None => "-".to_string(),
                    Some(Binding::Var(v)) => v.key(),
                    Some(Binding::Func(..)) => V::Str("<function>".into()).key(),
                }
            )
        })
        .collect::<Vec<_>>()
        .join(";")
}

fn all_names() -> Vec<String> {
    let mut v: Vec<String> = VAR_NAMES.iter().chain(FUNC_NAMES.iter()).chain(UNBOUND.iter()).map(|s| s.to_string()).collect();
    v.sort();
    v
}

fn result_string(r: &crate::eng::Guarded<Value>) -> String {
    match r {
        Err(p) => format!("PANIC({})", p),
        Ok(Err(_)) => "Err".into(),
        Ok(Ok(v)) => format!("Ok({})", V::from_value(v).key()),
    }
}

static NESTED_ERRORS: std::sync::Mutex<Vec<String>> = std::sync::Mutex::new(Vec::new());

fn exec_once(text: &str, sc: &SemCtx) -> (String, String) {
    handlers::reset();
    let ctx = handlers::context_of(&sc.bindings);
    let handle = handlers::share(&ctx);
    let r = guard(|| execute(text, ctx).map_err(|e| e.to_string()));
    let read = guard(|| handlers::read_back(&handle, &all_names())).unwrap_or_default();
    (result_string(&r), ctx_string(&read))
}

/// runs pool entry `i`; a nested entry first evaluates another entry from inside a context
/// function reached by the bare name `nz`
fn exec_entry(pool: &Arc<Vec<Entry>>, i: usize) -> (String, String) {
    let (text, sc, nested) = match &pool[i] {
        Entry::Prog { text, sc, nested, .. } => (text.clone(), sc.clone(), *nested),
        Entry::Flat { .. } => return (String::new(), String::new()),
    };
    handlers::reset();
    let mut ctx = handlers::context_of(&sc.bindings);
    let mut text = text;
    if let Some(j) = nested {
        let p2 = pool.clone();
        ctx.set_func(
            "nz",
            Arc::new(move |_| {
                let got = exec_entry(&p2, j);
                if let Entry::Prog { expect: Some(want), text, .. } = &p2[j] {
                    if &got != want {
                        NESTED_ERRORS.lock().unwrap().push(format!(
                            "program {:?} evaluated from inside a context function of another evaluation gave {} | {} instead of its solo outcome {} | {}",
                            text, got.0, got.1, want.0, want.1
                        ));
                    }
                }
                Ok(Value::None)
            }),
        );
        text = format!("nz ; {}", text);
    }
    let handle = handlers::share(&ctx);
    let r = guard(|| execute(&text, ctx).map_err(|e| e.to_string()));
    let read = guard(|| handlers::read_back(&handle, &all_names())).unwrap_or_default();
    (result_string(&r), ctx_string(&read))
}

fn run_cmd(cmd: &Cmd, pool: &Arc<Vec<Entry>>) -> Rep {
    let r = guard(|| match cmd {
        Cmd::Exec(i) => match &pool[*i] {
            Entry::Prog { .. } => {
                let (a, b) = exec_entry(pool, *i);
                let errs: Vec<String> = std::mem::take(&mut *NESTED_ERRORS.lock().unwrap());
                if let Some(e) = errs.into_iter().next() {
                    return Rep::Nested(e);
                }
                Rep::Outcome(a, b)
            }
            Entry::Flat { .. } => Rep::Done,
        },
        Cmd::ParseOnly(i) => {
            let text = match &pool[*i] {
                Entry::Prog { text, .. } => text,
                Entry::Flat { text } => text,
            };
            let before = handlers::log_len();
            let ok = parse_expression(text).is_ok();
            let free = locks_free();
            // parsing runs no handler: nothing may have been logged meanwhile on this thread
            let calls = handlers::log_len().saturating_sub(before);
            Rep::Parsed(format!("{}:{:?}:handler-calls={}", ok, free, calls))
        }
        Cmd::ExecMany(i, n) => match &pool[*i] {
            Entry::Prog { text, sc, .. } => {
                let mut out = vec![];
                if let Ok(ast) = parse_expression(text) {
                    for _ in 0..*n {
                        handlers::reset();
                        let mut ctx = handlers::context_of(&sc.bindings);
                        let r = ast.exec(&mut ctx).map_err(|e| e.to_string());
                        let read = handlers::read_back(&ctx, &all_names());
                        out.push((result_string(&Ok(r)), ctx_string(&read)));
                    }
                } else {
                    for _ in 0..*n {
                        out.push(("Err".to_string(), model_ctx_string(&sc.bindings, &all_names())));
                    }
                }
                Rep::Many(out)
            }
            Entry::Flat { .. } => Rep::Done,
        },
        Cmd::Reg(p, right) => {
            register_infix_op(
                "vh_dyn",
                *p,
                InfixOpType::CALC,
                if *right { InfixOpAssociativity::RIGHT } else { InfixOpAssociativity::LEFT },
                Arc::new(|a, b| Ok(Value::List(vec![a, b]))),
            );
            Rep::Done
        }
        Cmd::ParseFlat(i) => match &pool[*i] {
            Entry::Flat { text } => Rep::Sexp(match parse_expression(text) {
                Ok(a) => sexp_ast(&a),
                Err(e) => format!("ERR {}", e),
            }),
            _ => Rep::Done,
        },
        Cmd::Stop => Rep::Done,
    });
    match r {
        Ok(rep) => rep,
        Err(p) => Rep::Panic(p),
    }
}

struct Worker {
    tx: Sender<(Cmd, Option<Arc<Barrier>>)>,
    rx: Receiver<Rep>,
    handle: Option<std::thread::JoinHandle<()>>,
}

fn spawn_worker(pool: Arc<Vec<Entry>>) -> Worker {
    let (tx, rx_cmd) = channel::<(Cmd, Option<Arc<Barrier>>)>();
    let (tx_rep, rx) = channel::<Rep>();
    let handle = std::thread::spawn(move || {
        while let Ok((cmd, barrier)) = rx_cmd.recv() {
            if matches!(cmd, Cmd::Stop) {
                break;
            }
            if let Some(b) = barrier {
                b.wait();
            }
            let rep = run_cmd(&cmd, &pool);
            if tx_rep.send(rep).is_err() {
                break;
            }
        }
    });
    Worker {
        tx,
        rx,
        handle: Some(handle),
    }
}

fn describe_cmd(c: &Cmd) -> String {
    match c {
        Cmd::Exec(i) => format!("exec({})", i),
        Cmd::ParseOnly(i) => format!("parse-only({})", i),
        Cmd::ExecMany(i, n) => format!("parse-once-exec-{}({})", n, i),
        Cmd::Reg(p, r) => format!("register vh_dyn prec={} {}", p, if *r { "RIGHT" } else { "LEFT" }),
        Cmd::ParseFlat(i) => format!("parse-flat({})", i),
        Cmd::Stop => "stop".into(),
    }
}

fn flat_table(p: i32, right: bool) -> OpTable {
    let mut t = sem_table();
    t.infix.insert("vh_dyn".into(), (p as i64, right));
    t
}

fn check_rep(cmd: &Cmd, rep: &Rep, pool: &[Entry], dyn_state: (i32, bool), thread: usize, concurrent: bool, trace: &str) -> CaseResult {
    let case = || json!({"trace": trace, "pool": pool.iter().map(|e| match e { Entry::Prog{text, sc, ..} => json!({"text": text, "context": ctx_json(sc)}), Entry::Flat{text} => json!({"flat": text}) }).collect::<Vec<_>>()});
    let at = format!("step `{}` on thread {}{}", describe_cmd(cmd), thread, if concurrent { " (concurrent burst)" } else { "" });
    if let Rep::Panic(p) = rep {
        return Err(Failure::new(format!("panic:{}", panic_file(p)), format!("{} panicked: {}\n    history: {}", at, p, trace), case()));
    }
    if let Rep::Nested(e) = rep {
        return Err(Failure::new("nested-evaluation-differs", format!("{}: {}\n    history: {}", at, e, trace), case()));
    }
    match (cmd, rep) {
        (Cmd::Exec(i), Rep::Outcome(r, c)) => {
            if let Entry::Prog { text, expect: Some((er, ec)), .. } = &pool[*i] {
                if r != er || c != ec {
                    let sig = if r != er { "order-dependence:result" } else { "cross-context-leak" };
                    return Err(Failure::new(
                        sig,
                        format!("{}: program {:?}\n    solo outcome : {} | {}\n    this outcome : {} | {}\n    history: {}", at, text, er, ec, r, c, trace),
                        case(),
                    ));
                }
            }
            Ok(())
        }
        (Cmd::ExecMany(i, _), Rep::Many(v)) => {
            if let Entry::Prog { text, expect: Some((er, ec)), .. } = &pool[*i] {
                for (r, c) in v {
                    if r != er || c != ec {
                        return Err(Failure::new(
                            "reexec-differs",
                            format!("{}: re-executing one parsed AST of {:?}\n    solo outcome : {} | {}\n    this outcome : {} | {}\n    history: {}", at, text, er, ec, r, c, trace),
                            case(),
                        ));
                    }
                }
            }
            Ok(())
        }
        (Cmd::ParseOnly(_), Rep::Parsed(s)) => {
            // (in a burst other threads legitimately take the registry locks for a moment)
            if !concurrent && (s.contains("false]") || s.contains("false,")) {
                return Err(Failure::new("parse-side-effect:lock", format!("{}: locks after a parse-only step: {}\n    history: {}", at, s, trace), case()));
            }
            if !s.ends_with("handler-calls=0") {
                return Err(Failure::new(
                    "parse-side-effect:handler-called",
                    format!("{}: a parse-only step invoked a registered handler ({}): parsing alone changes nothing observable\n    history: {}", at, s, trace),
                    case(),
                ));
            }
            Ok(())
        }
        (Cmd::ParseFlat(i), Rep::Sexp(got)) => {
            if concurrent {
                return Ok(()); // a registration may be in flight: C13's subject
            }
            if let Entry::Flat { text } = &pool[*i] {
                let want = match parse_text(text, &flat_table(dyn_state.0, dyn_state.1)) {
                    Ok((r, _, _)) => r.sexp(),
                    Err(e) => return Err(Failure::new("harness-bug:flat", format!("{}: {}", text, e), case())),
                };
                if *got != want {
                    return Err(Failure::new(
                        "parse-depends-on-history",
                        format!("{}: {:?} with vh_dyn registered last as prec={} {}\n    engine   : {}\n    reference: {}\n    history: {}", at, text, dyn_state.0, if dyn_state.1 { "RIGHT" } else { "LEFT" }, got, want, trace),
                        case(),
                    ));
                }
            }
            Ok(())
        }
        _ => Ok(()),
    }
}

fn gen_entry(src: &mut Src, cfg: &SemCfg) -> (R, SemCtx) {
    let mut sc = gen_context(src, cfg);
    for name in VAR_NAMES {
        if src.chance(1, 2) {
            let v = gen_value(src, cfg, Ty::Num, 0);
            sc.bindings.insert(name.to_string(), Binding::Var(v));
        }
    }
    let tree = if src.chance(2, 3) { R::Stmts(gen_statements(src, cfg, &sc, 5, true, true)) } else { gen_expr(src, cfg, &sc, Ty::Any, 0) };
    (tree, sc)
}

/// A word that earlier programs used as a plain name (variable, call, on this and on another thread)
/// is registered as an operator afterwards: programs parsed from then on depend on the registration
/// made so far, not on what was parsed before it.  Every call uses a word never seen before.
fn late_registration(src: &mut Src, st: &mut Stats) -> CaseResult {
    use std::sync::atomic::{AtomicUsize, Ordering};
    static NEXT: AtomicUsize = AtomicUsize::new(0);
    let w = format!("{}{}", src.choose(&["vh_lw", "Vh.lw", "é_lw"]), NEXT.fetch_add(1, Ordering::SeqCst));
    let kind = src.pick(3);
    let pre_uses = src.pick(8); // bit 0: as variable, bit 1: as call, bit 2: on another thread
    st.hist(&format!("late-registration:{}:pre-uses={}", ["postfix", "prefix", "infix"][kind], pre_uses));
    let num = |v: std::result::Result<Value, String>| v.map(|v| format!("{:?}", v));
    let run = |text: String| -> std::result::Result<Value, String> {
        match guard(|| execute(&text, expression_engine::create_context!()).map_err(|e| e.to_string())) {
            Ok(r) => r,
            Err(p) => Err(format!("PANIC {}", p)),
        }
    };
    let fail = |sig: &str, detail: String| Failure::new(format!("late-registration:{}", sig), detail, json!({"word": w, "kind": kind, "pre_uses": pre_uses}));
    if pre_uses & 1 != 0 {
        let got = num(run(format!("{w} = 3 ; {w} + 1", w = w)));
        if got != Ok(format!("{:?}", Value::from(4))) {
            return Err(fail("before", format!("`{w} = 3 ; {w} + 1` with the plain name {w} gave {:?}", got, w = w)));
        }
    }
    if pre_uses & 2 != 0 && run(format!("{}(1)", w)).is_ok() {
        return Err(fail("before", format!("`{}(1)` succeeded although nobody provides that function", w)));
    }
    if pre_uses & 4 != 0 {
        let w2 = w.clone();
        let h = std::thread::spawn(move || expression_engine::parse_expression(&format!("[{w} , 7 {w} , {w} 7]", w = w2)).map(|a| a.expr()).is_ok());
        let _ = h.join();
    }
    let (text, want) = match kind {
        0 => {
            expression_engine::register_postfix_op(&w, Arc::new(|a| Ok(Value::from(a.decimal()? * rust_decimal::Decimal::from(100)))));
            (format!("7 {}", w), Value::from(700))
        }
        1 => {
            expression_engine::register_prefix_op(&w, Arc::new(|a| Ok(Value::from(a.decimal()? + rust_decimal::Decimal::from(1000)))));
            (format!("{} 7", w), Value::from(1007))
        }
        _ => {
            register_infix_op(&w, 115, InfixOpType::CALC, InfixOpAssociativity::LEFT, Arc::new(|a, b| Ok(Value::from(a.decimal()? * rust_decimal::Decimal::from(10) + b.decimal()?))));
            (format!("2 {} 3 * 2", w), Value::from(26))
        }
    };
    let got = num(run(text.clone()));
    if got != Ok(format!("{:?}", want)) {
        return Err(fail(
            ["postfix", "prefix", "infix"][kind],
            format!("{:?} after {} was registered as {} operator (pre-uses {:03b}: variable / call / other thread) gave {:?}, the registration made so far requires {:?}", text, w, ["postfix", "prefix", "infix"][kind], pre_uses, got, want),
        ));
    }
    Ok(())
}

fn case(src: &mut Src, st: &mut Stats, env: &Env) -> CaseResult {
    st.eval();
    // one history in eight starts with a late registration (own choices first)
    if src.pick(8) == 0 {
        late_registration(src, st)?;
    }
    let cfg = SemCfg {
        max_depth: 3,
        edge: false,
        ill_typed_16: 1,
        observables: false,
        assignments: true,
    };
    // schedule parameters first (the tail of the choice vector may be exhausted)
    let nthreads = 1 + src.pick(4);
    // in a third of the histories the programs also use the harness's registered (logging)
    // functions and operators
    let cfg = SemCfg { observables: src.pick(3) == 2, ..cfg };
    let nsteps = 6 + src.pick(25);
    let child_check = src.pick(64) == 0;
    let npool = 2 + src.pick(5);
    let mut pool: Vec<Entry> = vec![];
    let mut trees: Vec<Option<R>> = vec![];
    for j in 0..npool {
        match src.weighted(&[6, 2, 2]) {
            1 if j > 0 => {
                // same text as an earlier program entry, other context (or same)
                if let Some(Entry::Prog { text, .. }) = pool.iter().find(|e| matches!(e, Entry::Prog { nested: None, .. })).cloned() {
                    let (_, sc2) = gen_entry(src, &cfg);
                    let tree = trees.iter().flatten().next().cloned();
                    pool.push(Entry::Prog { text, sc: sc2, expect: None, nested: None });
                    trees.push(tree);
                    continue;
                }
                let (t, sc) = gen_entry(src, &cfg);
                pool.push(Entry::Prog { text: t.render_explicit(), sc, expect: None, nested: None });
                trees.push(Some(t));
            }
            2 => {
                let a = *src.choose(&["1", "2", "x"]);
                let ops = ["+", "*", "vh_dyn", "==", "-", "vh_dyn", "&&", "<<"];
                let n = 2 + src.pick(4);
                let mut text = a.to_string();
                for _ in 0..n {
                    text.push(' ');
                    text.push_str(*src.choose(&ops));
                    text.push(' ');
                    text.push_str(*src.choose(&["1", "2", "3", "y"]));
                }
                pool.push(Entry::Flat { text });
                trees.push(None);
            }
            _ => {
                let (t, sc) = gen_entry(src, &cfg);
                // a third of the later programs evaluate an earlier one while they run
                let progs: Vec<usize> = pool.iter().enumerate().filter(|(_, e)| matches!(e, Entry::Prog { .. })).map(|(k, _)| k).collect();
                let nested = if !progs.is_empty() && src.chance(1, 3) { Some(progs[src.pick(progs.len())]) } else { None };
                pool.push(Entry::Prog { text: t.render_explicit(), sc, expect: None, nested });
                trees.push(Some(t));
            }
        }
    }
    // solo outcomes
    for idx in 0..pool.len() {
        let snapshot = Arc::new(pool[..=idx].to_vec());
        let t = &trees[idx];
        let e = &mut pool[idx];
        if let Entry::Prog { text, sc, expect, nested } = e {
            let first = exec_entry(&snapshot, idx);
            if nested.is_some() {
                st.hist("nested-evaluation");
            }
            if let Some(err) = std::mem::take(&mut *NESTED_ERRORS.lock().unwrap()).into_iter().next() {
                return Err(Failure::new("nested-evaluation-differs", format!("solo run of {:?}: {}", text, err), json!({"text": text, "context": ctx_json(sc)})));
            }
            let mut m = Model {
                ctx: sc.bindings.clone(),
                loggers: handlers::loggers(),
                ..Default::default()
            };
            let modelled = match t.as_ref().map(|t| m.run(t)) {
                Some(Ev::Val(v)) => Some((format!("Ok({})", v.key()), model_ctx_string(&m.ctx, &all_names()))),
                Some(Ev::Err(_)) => Some(("Err".to_string(), model_ctx_string(&m.ctx, &all_names()))),
                _ => None,
            };
            if let Some(mo) = &modelled {
                // numbers: the model's key strips trailing zeros, and so does V::key of the engine value
                if *mo != first {
                    return Err(Failure::new(
                        "solo-differs-from-reference",
                        format!("{:?}\n    engine solo: {} | {}\n    reference  : {} | {}", text, first.0, first.1, mo.0, mo.1),
                        json!({"text": text, "context": ctx_json(sc)}),
                    ));
                }
            } else {
                st.hist("solo:reference-unspecified-using-first-run");
            }
            *expect = Some(first);
        }
    }
    if child_check {
        if let Some(Entry::Prog { text, sc, expect: Some(exp), .. }) = pool.iter().find(|e| matches!(e, Entry::Prog { nested: None, .. })) {
            let out = run_child(&env.exe, &["worker", "c16"], &json!({"text": text, "context": ctx_json(sc)}).to_string(), Duration::from_secs(20));
            st.add_extra("child_processes", 1);
            let line = out.stdout.trim().to_string();
            let want = format!("{} | {}", exp.0, exp.1);
            if line != want {
                return Err(Failure::new(
                    "solo-differs-in-fresh-process",
                    format!("{:?}\n    in this process : {}\n    in a fresh child: {} ({:?})", text, want, line, out.end),
                    json!({"text": text, "context": ctx_json(sc)}),
                ));
            }
        }
    }
    // history
    let pool = Arc::new(pool);
    let mut workers: Vec<Worker> = (0..nthreads).map(|_| spawn_worker(pool.clone())).collect();
    let mut dyn_state = (115i32, false);
    let mut trace = String::new();
    let mut result: CaseResult = Ok(());
    let mut last_prog: Option<usize> = None;
    let mut repeated_after_other = false;
    let mut reg_then_parse_other_thread = false;
    let mut last_reg_thread: Option<usize> = None;
    let mut shape = String::new();
    // known initial registration
    workers[0].tx.send((Cmd::Reg(dyn_state.0, dyn_state.1), None)).ok();
    let _ = workers[0].rx.recv_timeout(Duration::from_secs(20));
    let gen_cmd = |src: &mut Src, pool: &[Entry]| -> Cmd {
        let i = src.pick(pool.len());
        match (&pool[i], src.weighted(&[5, 2, 2, 2])) {
            (Entry::Flat { .. }, 3) => Cmd::Reg(*src.choose(&[115, 105, 125, 55, 119, 121, 10]), src.chance(1, 2)),
            (Entry::Flat { .. }, 1) => Cmd::ParseOnly(i),
            (Entry::Flat { .. }, _) => Cmd::ParseFlat(i),
            (_, 0) => Cmd::Exec(i),
            (_, 1) => Cmd::ParseOnly(i),
            (_, 2) => Cmd::ExecMany(i, 1 + src.pick(3)),
            _ => Cmd::Reg(*src.choose(&[115, 105, 125, 55, 119, 121, 10]), src.chance(1, 2)),
        }
    };
    let mut seen_progs: Vec<usize> = vec![];
    'steps: for _ in 0..nsteps {
        if src.chance(1, 8) && nthreads > 1 {
            // burst: one command per thread, released together (no registrations inside)
            let barrier = Arc::new(Barrier::new(nthreads));
            let mut cmds = vec![];
            for w in 0..nthreads {
                let mut c = gen_cmd(src, &pool);
                if matches!(c, Cmd::Reg(..)) {
                    c = Cmd::ParseOnly(0);
                }
                trace.push_str(&format!("[t{}||{}] ", w, describe_cmd(&c)));
                workers[w].tx.send((c.clone(), Some(barrier.clone()))).ok();
                cmds.push(c);
            }
            shape.push('B');
            for (w, c) in cmds.iter().enumerate() {
                match workers[w].rx.recv_timeout(Duration::from_secs(30)) {
                    Ok(rep) => {
                        if let Err(f) = check_rep(c, &rep, &pool, dyn_state, w, true, &trace) {
                            result = Err(f);
                            break 'steps;
                        }
                    }
                    Err(_) => {
                        result = Err(Failure::new("hang:burst", format!("thread {} did not answer within 30 s; history: {}", w, trace), json!({"trace": trace})));
                        break 'steps;
                    }
                }
            }
            continue;
        }
        let w = src.pick(nthreads);
        let c = gen_cmd(src, &pool);
        trace.push_str(&format!("[t{} {}] ", w, describe_cmd(&c)));
        shape.push(match c {
            Cmd::Exec(_) => 'e',
            Cmd::ParseOnly(_) => 'p',
            Cmd::ExecMany(..) => 'm',
            Cmd::Reg(..) => 'r',
            Cmd::ParseFlat(_) => 'f',
            Cmd::Stop => 's',
        });
        if let Cmd::Exec(i) | Cmd::ExecMany(i, _) = c {
            if seen_progs.contains(&i) && last_prog != Some(i) {
                repeated_after_other = true;
            }
            seen_progs.push(i);
            last_prog = Some(i);
        }
        if let Cmd::ParseFlat(_) = c {
            if let Some(t) = last_reg_thread {
                if t != w {
                    reg_then_parse_other_thread = true;
                }
            }
        }
        workers[w].tx.send((c.clone(), None)).ok();
        match workers[w].rx.recv_timeout(Duration::from_secs(30)) {
            Ok(rep) => {
                if let Cmd::Reg(p, r) = c {
                    dyn_state = (p, r);
                    last_reg_thread = Some(w);
                }
                if let Err(f) = check_rep(&c, &rep, &pool, dyn_state, w, false, &trace) {
                    result = Err(f);
                    break;
                }
            }
            Err(_) => {
                result = Err(Failure::new("hang:step", format!("thread {} did not answer within 30 s; history: {}", w, trace), json!({"trace": trace})));
                break;
            }
        }
    }
    for w in workers.iter_mut() {
        w.tx.send((Cmd::Stop, None)).ok();
    }
    for w in workers.iter_mut() {
        if let Some(h) = w.handle.take() {
            let _ = h.join();
        }
    }
    st.hist(&format!("threads:{}", nthreads));
    if repeated_after_other || reg_then_parse_other_thread {
        st.nontrivial(&format!("{}|{}|{}", pool.len(), nthreads, shape));
    }
    if reg_then_parse_other_thread {
        st.hist("parse-after-registration-on-another-thread");
    }
    st.sample(|| json!({"threads": nthreads, "history": trace, "pool": pool.iter().map(|e| match e { Entry::Prog{text, ..} => text.clone(), Entry::Flat{text} => format!("flat: {}", text) }).collect::<Vec<_>>()}));
    result
}

pub fn worker() -> i32 {
    use std::io::Read;
    install_panic_hook();
    crate::handlers::setup();
    let mut s = String::new();
    std::io::stdin().read_to_string(&mut s).ok();
    let doc: J = serde_json::from_str(&s).unwrap_or(json!({}));
    let sc = ctx_from_json(&doc["context"]);
    let (a, b) = exec_once(doc["text"].as_str().unwrap_or(""), &sc);
    println!("{} | {}", a, b);
    0
}

fn fixed(env: &Env, st: &mut Stats) -> CaseResult {
    // a result must not depend on another thread making its first, unrelated call at the same
    // time: the initialising thread is parked between its stages while built-ins are overridden
    // and used (fresh child processes, C13's scenario runner)
    for stage in 1..=3u64 {
        if env.mine(100 + stage) {
            st.hist("concurrent-first-use");
            crate::props::c13::run_held("parse:1+2", stage, &["reg_fn:min", "exec:min(1,2)", "exec:1+2", "reg_infix:+", "exec:2 ++"], env, st).map_err(|mut f| {
                f.detail = format!("(held-initialisation scenario, replay with ./check C13 --replay) {}", f.detail);
                f
            })?;
        }
    }
    // depth sweeps: evaluate, parse only, evaluate again on the same thread
    let constructs = ["paren", "bracket", "call", "prefix-minus", "cond-else", "left-chain"];
    for (ci, c) in constructs.iter().enumerate() {
        if !env.mine(ci as u64) {
            continue;
        }
        let texts: Vec<String> = (1..=320).map(|n| crate::props::c01::build(c, n)).collect();
        let sc = SemCtx::default();
        let first: Vec<(String, String)> = texts.iter().map(|t| exec_once(t, &sc)).collect();
        for t in &texts {
            let _ = guard(|| parse_expression(t).is_ok());
        }
        for t in texts.iter().rev() {
            let _ = guard(|| parse_expression(t).is_ok());
        }
        // rejected programs (groups left open, operators without operand) must leave no trace either
        for n in 1..=300 {
            for junk in [format!("{}a + ", "(".repeat(n)), format!("{}1 ,", "[".repeat(n % 40 + 1)), format!("{}x *", "f(".repeat(n % 30 + 1))] {
                let _ = guard(|| parse_expression(&junk).is_ok());
            }
        }
        let second: Vec<(String, String)> = texts.iter().map(|t| exec_once(t, &sc)).collect();
        st.evals_add(texts.len() as u64 * 2);
        st.hist("depth-sweep");
        for (i, (a, b)) in first.iter().zip(&second).enumerate() {
            st.nontrivial(&format!("sweep:{}:{}", c, i));
            if a != b {
                return Err(Failure::new(
                    "order-dependence:depth-sweep",
                    format!("{} nested {} deep evaluated to {} first and to {} after parsing other programs on the same thread", c, i + 1, a.0, b.0),
                    json!({"construct": c, "depth": i + 1}),
                ));
            }
        }
    }
    Ok(())
}
