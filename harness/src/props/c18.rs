//! C18 — describe() renders each node with exactly the descriptor registered for it.
use crate::bigdec::BigDec;
use crate::gen_syntax::{gen_program, SynCfg};
use crate::model::R;
use crate::runner::*;
use crate::src::Src;
use crate::syntax::{parse_tokens, OpTable};
use expression_engine::parse_expression;
use expression_engine::verif_hooks::DescriptorManager;
use serde_json::{json, Value as J};
use std::collections::BTreeMap;
use std::sync::mpsc::channel;
use std::sync::Arc;
use std::time::Duration;

pub static PROP: Prop = Prop {
    id: "C18",
    rule: "cases: histories run in a fresh child process over 1-3 persistent threads: steps set_<kind>_descriptor([name,] marker) for the nine node kinds (unary, binary, postfix, ternary, function, reference, list, map, chain), names drawn from the operators, functions and references occurring in the case's ASTs and from names that do not, re-registrations with a new marker, the same spelling used for different kinds (`-` prefix and infix, `++`, a function and a reference both called foo); a quarter of the histories make their first 1-n registrations before the engine is used for the first time in the process, a quarter of the ASTs use long names of one kind that differ in their last character only; after EVERY step every AST of the case (1-3 programs from the flat generator, all nine node kinds, rendered fully parenthesised) is described on every thread. Oracle: a model registry (kind[, name]) -> marker; a marker descriptor renders <id:kind:name:child|child...> (one marker in seven renders as the empty string; every marker also reports a descriptor store that is locked while it runs); nodes without registration render with the default (literal = expr(), op+rhs, lhs+op+rhs, lhs+op, c?a:b, name(a,b), name, [a,b], {k:v}, statements joined by `;`); the model's string must equal describe() after every step on every thread. Plus the exhaustive single-registration table: 9 kinds x {a name that occurs, a name that does not} against an AST containing all nine kinds. Plus bursts of first-time registrations: 2-8 threads released by one barrier each register a descriptor for a fresh name of their own (hundreds of rounds); a program using all the names must then be described with every marker. Plus, per kind, a replacement race: a registered marker 1 is replaced by marker 2, 1, 2, ... (thousands of times; descriptors that own state whose Drop is instant or takes 30 us) while three threads describe the all-kinds AST: every node of that kind must be rendered by marker 1 or by marker 2 (the rendering is compared with the model's after mapping marker 2 to marker 1) - a registration exists at every moment, so the default rendering is a violation. Non-trivial: >= 2 registrations of different kinds of which one shares its name with a node of another kind, or a re-registration, or >= 2 threads with a registration after the first describe; distinct by (registered (kind, name-class) sequence, thread count, AST kind multiset).",
    assumptions: &[
        "registrations go through the cfg-guarded re-export of DescriptorManager (the module is private)",
        "the AST is obtained from the fully parenthesised rendering, so grouping does not depend on C02",
    ],
    budget,
    setup: noop_setup,
    case,
    fixed,
    replay: Some(replay),
    breadcrumb: false,
    fuzz: &[],
};

fn budget(t: Tier) -> Budget {
    Budget {
        cases: t.pick(25_000, 300_000),
        max_len: 260,
        shards: 16,
        dual_profile: false,
    }
}

pub const KINDS: [&str; 9] = ["unary", "binary", "postfix", "ternary", "function", "reference", "list", "map", "chain"];

fn named(kind: &str) -> bool {
    matches!(kind, "unary" | "binary" | "postfix" | "function" | "reference")
}

type Registry = BTreeMap<(String, String), u32>;

/// markers whose id is a multiple of 7 render as the empty string (a legitimate descriptor)
fn marker(id: u32, kind: &str, name: &str, children: &[String]) -> String {
    if id % 7 == 0 {
        return String::new();
    }
    format!("<{}:{}:{}:{}>", id, kind, name, children.join("|"))
}

/// engine-side marker: additionally reports a descriptor store that is locked while it runs
fn live_marker(id: u32, kind: &str, name: &str, children: &[String]) -> String {
    let free = expression_engine::verif_hooks::locks_free();
    if !free[4] {
        return format!("!descriptor-store-locked-while-{}-descriptor-runs", kind);
    }
    marker(id, kind, name, children)
}

/// what describe() must return for `r` under `reg`
pub fn model_describe(r: &R, reg: &Registry) -> String {
    let get = |kind: &str, name: &str| reg.get(&(kind.to_string(), if named(kind) { name.to_string() } else { String::new() })).copied();
    match r {
        R::Num(t) => BigDec::from_literal(t).map(|d| d.to_text()).unwrap_or_else(|| t.clone()),
        R::Bool(sp) => if sp == "true" || sp == "True" { "true".into() } else { "false".into() },
        R::Str(p, _) => {
            let q = if p.contains('"') { '\'' } else { '"' };
            format!("{}{}{}", q, p, q)
        }
        R::Ref(n) => match get("reference", n) {
            Some(id) => marker(id, "reference", n, &[]),
            None => n.clone(),
        },
        R::Call(n, args) => {
            let a: Vec<String> = args.iter().map(|x| model_describe(x, reg)).collect();
            match get("function", n) {
                Some(id) => marker(id, "function", n, &a),
                None => format!("{}({})", n, a.join(",")),
            }
        }
        R::List(items) => {
            let a: Vec<String> = items.iter().map(|x| model_describe(x, reg)).collect();
            match get("list", "") {
                Some(id) => marker(id, "list", "", &a),
                None => format!("[{}]", a.join(",")),
            }
        }
        R::Map(m) => {
            let pairs: Vec<(String, String)> = m.iter().map(|(k, v)| (model_describe(k, reg), model_describe(v, reg))).collect();
            match get("map", "") {
                Some(id) => marker(id, "map", "", &pairs.iter().map(|(k, v)| format!("{}=>{}", k, v)).collect::<Vec<_>>()),
                None => format!("{{{}}}", pairs.iter().map(|(k, v)| format!("{}:{}", k, v)).collect::<Vec<_>>().join(",")),
            }
        }
        R::Prefix(op, x) => {
            let c = model_describe(x, reg);
            match get("unary", op) {
                Some(id) => marker(id, "unary", op, &[c]),
                None => format!("{}{}", op, c),
            }
        }
        R::Postfix(x, op) => {
            let c = model_describe(x, reg);
            match get("postfix", op) {
                Some(id) => marker(id, "postfix", op, &[c]),
                None => format!("{}{}", c, op),
            }
        }
        R::Infix(op, l, rr) => {
            let (a, b) = (model_describe(l, reg), model_describe(rr, reg));
            match get("binary", op) {
                Some(id) => marker(id, "binary", op, &[a, b]),
                None => format!("{}{}{}", a, op, b),
            }
        }
        R::NotInfix(op, l, rr) => {
            let inner = model_describe(&R::Infix(op.clone(), l.clone(), rr.clone()), reg);
            match get("unary", "not") {
                Some(id) => marker(id, "unary", "not", &[inner]),
                None => format!("not{}", inner),
            }
        }
        R::Cond(c, a, b) => {
            let v = [model_describe(c, reg), model_describe(a, reg), model_describe(b, reg)];
            match get("ternary", "") {
                Some(id) => marker(id, "ternary", "", &v),
                None => format!("{}?{}:{}", v[0], v[1], v[2]),
            }
        }
        R::Stmts(v) => {
            if v.len() == 1 {
                return model_describe(&v[0], reg);
            }
            let a: Vec<String> = v.iter().map(|x| model_describe(x, reg)).collect();
            match get("chain", "") {
                Some(id) => marker(id, "chain", "", &a),
                None => a.join(";"),
            }
        }
    }
}

/// state owned by a registered descriptor; dropping it takes `0` microseconds
struct Owned(u32);
impl Drop for Owned {
    fn drop(&mut self) {
        if self.0 > 0 {
            let t = std::time::Instant::now();
            while t.elapsed() < Duration::from_micros(self.0 as u64) {
                std::hint::spin_loop();
            }
        }
    }
}

fn register(kind: &str, name: &str, id: u32) {
    register_with(kind, name, id, true, 0)
}

/// `probe`: the marker also reports a locked store (only meaningful while no other thread uses it)
fn register_with(kind: &str, name: &str, id: u32, probe: bool, slow_drop_us: u32) {
    let mut m = DescriptorManager::new();
    let k = kind.to_string();
    let g = Owned(slow_drop_us);
    let mk = move |id: u32, kind: &str, name: &str, children: &[String]| {
        let _owned = &g;
        if probe {
            live_marker(id, kind, name, children)
        } else {
            marker(id, kind, name, children)
        }
    };
    match kind {
        "unary" => m.set_unary_descriptor(name.to_string(), Arc::new(move |op, rhs| mk(id, &k, &op, &[rhs]))),
        "binary" => m.set_binary_descriptor(name.to_string(), Arc::new(move |op, l, r| mk(id, &k, &op, &[l, r]))),
        "postfix" => m.set_postfix_descriptor(name.to_string(), Arc::new(move |lhs, op| mk(id, &k, &op, &[lhs]))),
        "ternary" => m.set_ternary_descriptor(Arc::new(move |c, a, b| mk(id, &k, "", &[c, a, b]))),
        "function" => m.set_function_descriptor(name.to_string(), Arc::new(move |n, params| mk(id, &k, &n, &params))),
        "reference" => m.set_reference_descriptor(name.to_string(), Arc::new(move |n| mk(id, &k, &n, &[]))),
        "list" => m.set_list_descriptor(Arc::new(move |items| mk(id, &k, "", &items))),
        "map" => m.set_map_descriptor(Arc::new(move |pairs| mk(id, &k, "", &pairs.iter().map(|(a, b)| format!("{}=>{}", a, b)).collect::<Vec<_>>()))),
        _ => m.set_chain_descriptor(Arc::new(move |items| mk(id, &k, "", &items))),
    }
}

/// child, burst mode: {"burst": {"threads": T, "rounds": R}}: per round T threads, released by one
/// barrier, each register a descriptor for a fresh name of its own (function / reference
/// descriptors); afterwards a program that uses all T names is described
fn burst_worker(doc: &J) -> i32 {
    let threads = doc["burst"]["threads"].as_u64().unwrap_or(3).max(2) as usize;
    let rounds = doc["burst"]["rounds"].as_u64().unwrap_or(100);
    let mut lost: Vec<J> = vec![];
    for r in 0..rounds {
        let barrier = Arc::new(std::sync::Barrier::new(threads));
        let specs: Vec<(String, String, u32)> = (0..threads)
            .map(|t| {
                let kind = if t % 2 == 0 { "function" } else { "reference" };
                (kind.to_string(), format!("vb{}_{}", r, t), 1 + (t as u32 % 6))
            })
            .collect();
        let hs: Vec<_> = specs
            .iter()
            .cloned()
            .map(|(kind, name, id)| {
                let b = barrier.clone();
                std::thread::spawn(move || {
                    b.wait();
                    register_with(&kind, &name, id, false, 0);
                })
            })
            .collect();
        for h in hs {
            let _ = h.join();
        }
        let text = specs.iter().map(|(k, n, _)| if k == "function" { format!("{}(1)", n) } else { n.clone() }).collect::<Vec<_>>().join(" ; ");
        let got = match guard(|| parse_expression(&text).map(|a| a.describe()).map_err(|e| e.to_string())) {
            Ok(Ok(d)) => d,
            Ok(Err(e)) => format!("PARSE-ERROR {}", e),
            Err(p) => format!("PANIC {}", p),
        };
        for (k, n, id) in &specs {
            let want = if k == "function" { marker(*id, k, n, &["1".to_string()]) } else { marker(*id, k, n, &[]) };
            if !got.contains(&want) && lost.len() < 5 {
                lost.push(json!({"round": r, "kind": k, "name": n, "program": text, "describe": got, "missing": want}));
            }
        }
    }
    println!("{}", json!({"lost": lost}));
    0
}

/// child, race mode: {"race": {"kind","name","ast","rounds","slow_drop_us","readers"}}
/// marker 1 is registered, then one thread keeps replacing it by marker 2, 1, 2, ... while the
/// readers describe the AST; prints the distinct renderings that were seen
fn race_worker(doc: &J) -> i32 {
    let r = &doc["race"];
    let kind = r["kind"].as_str().unwrap_or("list").to_string();
    let name = r["name"].as_str().unwrap_or("").to_string();
    let text = r["ast"].as_str().unwrap_or("[1]").to_string();
    let rounds = r["rounds"].as_u64().unwrap_or(1000);
    let slow = r["slow_drop_us"].as_u64().unwrap_or(0) as u32;
    let readers = r["readers"].as_u64().unwrap_or(3).max(1) as usize;
    register_with(&kind, &name, 1, false, slow);
    let stop = Arc::new(std::sync::atomic::AtomicBool::new(false));
    let mut hs = vec![];
    for _ in 0..readers {
        let stop = stop.clone();
        let text = text.clone();
        hs.push(std::thread::spawn(move || {
            let mut seen: std::collections::BTreeMap<String, u64> = BTreeMap::new();
            let ast = match parse_expression(&text) {
                Ok(a) => a,
                Err(e) => {
                    seen.insert(format!("PARSE-ERROR {}", e), 1);
                    return seen;
                }
            };
            loop {
                let done = stop.load(std::sync::atomic::Ordering::SeqCst);
                let d = match guard(|| ast.describe()) {
                    Ok(d) => d,
                    Err(p) => format!("PANIC {}", p),
                };
                if seen.len() < 20 || seen.contains_key(&d) {
                    *seen.entry(d).or_insert(0) += 1;
                }
                if done {
                    break;
                }
            }
            seen
        }));
    }
    for i in 0..rounds {
        register_with(&kind, &name, if i % 2 == 0 { 2 } else { 1 }, false, slow);
    }
    stop.store(true, std::sync::atomic::Ordering::SeqCst);
    let mut all: BTreeMap<String, u64> = BTreeMap::new();
    for h in hs {
        if let Ok(m) = h.join() {
            for (k, v) in m {
                *all.entry(k).or_insert(0) += v;
            }
        }
    }
    println!("{}", json!({"seen": all}));
    0
}

/// child: {"threads": T, "asts": [text], "steps": [{"kind","name","id","thread"}]}
/// prints, for the initial state and after every step, describe() of every AST on every thread
pub fn worker() -> i32 {
    use std::io::Read;
    install_panic_hook();
    let mut s = String::new();
    std::io::stdin().read_to_string(&mut s).ok();
    let doc: J = serde_json::from_str(&s).unwrap_or(json!({}));
    if doc.get("race").is_some() {
        return race_worker(&doc);
    }
    if doc.get("burst").is_some() {
        return burst_worker(&doc);
    }
    let texts: Arc<Vec<String>> = Arc::new(doc["asts"].as_array().map(|a| a.iter().map(|x| x.as_str().unwrap_or("").to_string()).collect()).unwrap_or_default());
    let nthreads = doc["threads"].as_u64().unwrap_or(1).max(1) as usize;
    // persistent threads: commands are ("set", kind, name, id) or ("describe")
    let mut txs = vec![];
    let mut rxs = vec![];
    for _ in 0..nthreads {
        let (tx, rx_cmd) = channel::<Option<(String, String, u32)>>();
        let (tx_rep, rx) = channel::<Vec<String>>();
        let texts = texts.clone();
        std::thread::spawn(move || {
            while let Ok(cmd) = rx_cmd.recv() {
                if let Some((kind, name, id)) = cmd {
                    register(&kind, &name, id);
                    let _ = tx_rep.send(vec![]);
                } else {
                    let out: Vec<String> = texts
                        .iter()
                        .map(|t| match guard(|| parse_expression(t).map(|a| a.describe()).map_err(|e| e.to_string())) {
                            Ok(Ok(d)) => d,
                            Ok(Err(e)) => format!("PARSE-ERROR {}", e),
                            Err(p) => format!("PANIC {}", p),
                        })
                        .collect();
                    let _ = tx_rep.send(out);
                }
            }
        });
        txs.push(tx);
        rxs.push(rx);
    }
    let describe_all = |txs: &Vec<std::sync::mpsc::Sender<Option<(String, String, u32)>>>, rxs: &Vec<std::sync::mpsc::Receiver<Vec<String>>>| -> Vec<Vec<String>> {
        (0..nthreads)
            .map(|t| {
                txs[t].send(None).ok();
                rxs[t].recv_timeout(Duration::from_secs(20)).unwrap_or_else(|_| vec!["TIMEOUT".into()])
            })
            .collect()
    };
    // the first `pre` registrations are made before the engine is used for the first time in this
    // process (no parse, no describe yet); rounds[0] is then the state after them
    let pre = doc["pre"].as_u64().unwrap_or(0) as usize;
    let mut rounds = vec![];
    if pre == 0 {
        rounds.push(describe_all(&txs, &rxs));
    }
    for (i, st) in doc["steps"].as_array().cloned().unwrap_or_default().iter().enumerate() {
        let t = (st["thread"].as_u64().unwrap_or(0) as usize).min(nthreads - 1);
        txs[t].send(Some((st["kind"].as_str().unwrap_or("").to_string(), st["name"].as_str().unwrap_or("").to_string(), st["id"].as_u64().unwrap_or(0) as u32))).ok();
        let _ = rxs[t].recv_timeout(Duration::from_secs(20));
        if i + 1 >= pre {
            rounds.push(describe_all(&txs, &rxs));
        }
    }
    println!("{}", json!({"rounds": rounds}));
    0
}

fn collect_names(r: &R, out: &mut BTreeMap<&'static str, Vec<String>>) {
    let mut add = |k: &'static str, n: &str| {
        let v = out.entry(k).or_default();
        if !v.contains(&n.to_string()) {
            v.push(n.to_string());
        }
    };
    match r {
        R::Ref(n) => add("reference", n),
        R::Call(n, a) => {
            add("function", n);
            a.iter().for_each(|x| collect_names(x, out));
        }
        R::List(a) => {
            add("list", "");
            a.iter().for_each(|x| collect_names(x, out));
        }
        R::Stmts(a) => {
            if a.len() != 1 {
                add("chain", "");
            }
            a.iter().for_each(|x| collect_names(x, out));
        }
        R::Map(m) => {
            add("map", "");
            m.iter().for_each(|(k, v)| {
                collect_names(k, out);
                collect_names(v, out)
            });
        }
        R::Prefix(op, x) => {
            add("unary", op);
            collect_names(x, out);
        }
        R::Postfix(x, op) => {
            add("postfix", op);
            collect_names(x, out);
        }
        R::Infix(op, l, rr) => {
            add("binary", op);
            collect_names(l, out);
            collect_names(rr, out);
        }
        R::NotInfix(op, l, rr) => {
            add("unary", "not");
            add("binary", op);
            collect_names(l, out);
            collect_names(rr, out);
        }
        R::Cond(c, a, b) => {
            add("ternary", "");
            collect_names(c, out);
            collect_names(a, out);
            collect_names(b, out);
        }
        _ => {}
    }
}

fn run_history(trees: &[R], steps: &[(String, String, u32, usize)], nthreads: usize, env: &Env, st: &mut Stats) -> CaseResult {
    run_history_pre(trees, steps, nthreads, 0, env, st)
}

/// `pre`: the first `pre` steps are made before the engine's first use in the child process
fn run_history_pre(trees: &[R], steps: &[(String, String, u32, usize)], nthreads: usize, pre: usize, env: &Env, st: &mut Stats) -> CaseResult {
    let pre = pre.min(steps.len());
    let texts: Vec<String> = trees.iter().map(|t| t.render_explicit()).collect();
    let scenario = json!({
        "pre": pre,
        "threads": nthreads,
        "asts": texts,
        "steps": steps.iter().map(|(k, n, id, t)| json!({"kind": k, "name": n, "id": id, "thread": t})).collect::<Vec<_>>(),
    });
    let case = || scenario.clone();
    let out = run_child(&env.exe, &["worker", "c18"], &scenario.to_string(), Duration::from_secs(60));
    st.add_extra("child_processes", 1);
    let doc: J = match (&out.end, serde_json::from_str::<J>(&out.stdout)) {
        (ChildEnd::Exit(0), Ok(d)) => d,
        _ => return Err(Failure::new("child:crash", format!("describe child ended with {:?}; stderr: {}", out.end, out.stderr), case())),
    };
    let mut reg: Registry = BTreeMap::new();
    for round in 0..=steps.len() {
        if round > 0 {
            let (k, n, id, _) = &steps[round - 1];
            reg.insert((k.clone(), if named(k) { n.clone() } else { String::new() }), *id);
        }
        if round < pre {
            continue; // registered before the first use of the engine: nothing observed yet
        }
        let ri = round - pre;
        for t in 0..nthreads {
            for (ai, tree) in trees.iter().enumerate() {
                st.eval();
                let want = model_describe(tree, &reg);
                let got = doc["rounds"][ri][t][ai].as_str().unwrap_or("<missing>");
                if got != want {
                    let last = if round > 0 { format!("{:?}", &steps[round - 1]) } else { "initial state".into() };
                    let sig = if got.starts_with("PANIC") {
                        "panic".to_string()
                    } else if pre > 0 && ri == 0 {
                        format!("registered-before-first-use:{}", steps[..pre].iter().map(|s| s.0.as_str()).collect::<Vec<_>>().join("+"))
                    } else if got.contains("!descriptor-store-locked") {
                        "lock-held:descriptor-store".to_string()
                    } else if round > 0 {
                        let (k, _, _, th) = &steps[round - 1];
                        if *th != t && nthreads > 1 && doc["rounds"][ri][*th][ai].as_str() == Some(want.as_str()) {
                            format!("stale-on-other-thread:{}", k)
                        } else {
                            format!("lookup:{}", k)
                        }
                    } else {
                        "default".to_string()
                    };
                    return Err(Failure::new(
                        sig,
                        format!("{}\n    after step {} ({}), thread {}\n    describe(): {}\n    expected  : {}", texts[ai], round, last, t, got, want),
                        case(),
                    ));
                }
            }
        }
    }
    Ok(())
}

/// a registered descriptor is replaced while other threads describe: every rendering uses the old
/// or the new descriptor, never the default (there is a registration at every moment)
fn run_race(tree: &R, kind: &str, name: &str, slow_drop_us: u32, readers: usize, env: &Env, st: &mut Stats) -> CaseResult {
    let text = tree.render_explicit();
    let rounds = env.tier.pick(3_000, 40_000) / if slow_drop_us > 0 { 10 } else { 1 };
    let scenario = json!({"race": {"kind": kind, "name": name, "ast": text, "rounds": rounds, "slow_drop_us": slow_drop_us, "readers": readers}});
    let out = run_child(&env.exe, &["worker", "c18"], &scenario.to_string(), Duration::from_secs(120));
    st.add_extra("child_processes", 1);
    let doc: J = match (&out.end, serde_json::from_str::<J>(&out.stdout)) {
        (ChildEnd::Exit(0), Ok(d)) => d,
        _ => return Err(Failure::new("child:crash", format!("describe race child ended with {:?}; stderr: {}", out.end, out.stderr), scenario)),
    };
    let key = (kind.to_string(), if named(kind) { name.to_string() } else { String::new() });
    let wants: Vec<String> = [1u32, 2].iter().map(|id| model_describe(tree, &[(key.clone(), *id)].into_iter().collect())).collect();
    let mut n = 0;
    for (got, count) in doc["seen"].as_object().cloned().unwrap_or_default() {
        st.eval();
        n += count.as_u64().unwrap_or(0);
        // one describe() looks the descriptor up once per node: nodes of one rendering may differ
        let normalised = got.replace(&format!("<2:{}:", kind), &format!("<1:{}:", kind));
        if normalised != wants[0] {
            let sig = if got.starts_with("PANIC") { "panic".to_string() } else { format!("replace-race:{}", kind) };
            return Err(Failure::new(
                sig,
                format!("{}\n    while the {} descriptor [{}] was being replaced (marker 1 <-> marker 2, {} replacements) a concurrent describe() returned\n      {}\n    in which some node is rendered neither by marker 1 nor by marker 2; with marker 1 everywhere:\n      {}", text, kind, name, rounds, got, wants[0]),
                scenario,
            ));
        }
    }
    st.add_extra("race_describes", n);
    Ok(())
}

/// registrations of different keys made at the same moment by different threads must all be in
/// effect afterwards ("registering a descriptor for one name never changes how another is rendered")
fn run_burst(threads: usize, env: &Env, st: &mut Stats) -> CaseResult {
    let rounds = env.tier.pick(400, 6_000);
    let scenario = json!({"burst": {"threads": threads, "rounds": rounds}});
    let out = run_child(&env.exe, &["worker", "c18"], &scenario.to_string(), Duration::from_secs(120));
    st.add_extra("child_processes", 1);
    let doc: J = match (&out.end, serde_json::from_str::<J>(&out.stdout)) {
        (ChildEnd::Exit(0), Ok(d)) => d,
        _ => return Err(Failure::new("child:crash", format!("registration burst child ended with {:?}; stderr: {}", out.end, out.stderr), scenario)),
    };
    st.add_extra("burst_rounds", rounds);
    for _ in 0..rounds {
        st.eval();
    }
    if let Some(l) = doc["lost"].as_array().and_then(|a| a.first()) {
        return Err(Failure::new(
            format!("lost-registration:concurrent:{}", l["kind"].as_str().unwrap_or("?")),
            format!(
                "{} threads each registered a descriptor for a fresh name of their own at the same moment (round {}); afterwards\n    {}\n    is described as\n    {}\n    which lacks {}",
                threads,
                l["round"],
                l["program"].as_str().unwrap_or(""),
                l["describe"].as_str().unwrap_or(""),
                l["missing"].as_str().unwrap_or("")
            ),
            scenario,
        ));
    }
    Ok(())
}

/// names of one kind that are long, equally long and differ in their last character only
const LONG_NAMES: [&str; 3] = ["customer_billing_address_line1", "customer_billing_address_line2", "customer_billing_address_line3"];
const LONG_FUNCS: [&str; 2] = ["compute_regional_sales_tax_rate_a", "compute_regional_sales_tax_rate_b"];

fn gen_tree(src: &mut Src, tab: &OpTable, long_names: bool) -> R {
    let mut cfg = SynCfg::new(tab);
    cfg.max_depth = 3;
    cfg.max_operands = 6;
    if long_names {
        cfg.extra_names = LONG_NAMES.iter().map(|s| s.to_string()).collect();
        cfg.extra_funcs = LONG_FUNCS.iter().map(|s| s.to_string()).collect();
    }
    let toks = gen_program(src, &cfg);
    parse_tokens(&toks, tab).map(|x| x.0).unwrap_or(R::Stmts(vec![]))
}

fn case(src: &mut Src, st: &mut Stats, env: &Env) -> CaseResult {
    let tab = OpTable::builtin();
    let nthreads = 1 + src.weighted(&[3, 2, 1]);
    let nsteps = 1 + src.pick(10);
    let ntrees = 1 + src.pick(3);
    // a quarter of the histories make their first registrations before the engine is used at all
    let pre = if src.pick(4) == 3 { 1 + src.pick(nsteps) } else { 0 };
    // a quarter of the ASTs use long names that differ in their last character only
    let long_names = src.pick(4) == 3;
    // the step choices are drawn before the trees: the tail of a choice vector may be exhausted
    let raw: Vec<[u32; 4]> = (0..nsteps).map(|_| [src.raw(), src.raw(), src.raw(), src.raw()]).collect();
    let pick = |r: u32, n: usize| ((r as u64 * n.max(1) as u64) >> 32) as usize;
    let trees: Vec<R> = (0..ntrees).map(|_| gen_tree(src, &tab, long_names)).collect();
    let mut names: BTreeMap<&'static str, Vec<String>> = BTreeMap::new();
    for t in &trees {
        collect_names(t, &mut names);
    }
    let mut steps: Vec<(String, String, u32, usize)> = vec![];
    let mut shape = String::new();
    let mut cross = false;
    let mut rereg = false;
    for i in 0..nsteps {
        let r = raw[i];
        let kind = KINDS[pick(r[0], KINDS.len())];
        let name = if named(kind) {
            // a name of this kind in the AST, a name used by ANOTHER kind in the AST, or a foreign one
            let own = names.get(kind).cloned().unwrap_or_default();
            let others: Vec<String> = names.iter().filter(|(k, _)| **k != kind && named(k)).flat_map(|(_, v)| v.clone()).collect();
            match pick(r[1], 9) {
                0..=4 if !own.is_empty() => own[pick(r[2], own.len())].clone(),
                5..=7 if !others.is_empty() => {
                    cross = true;
                    others[pick(r[2], others.len())].clone()
                }
                _ => ["zz", "-", "++", "foo", "in", "?"][pick(r[2], 6)].to_string(),
            }
        } else {
            String::new()
        };
        if steps.iter().any(|(k, n, _, _)| k == kind && *n == name) {
            rereg = true;
        }
        shape.push_str(&format!("{}{};", &kind[..2], if name.is_empty() { 0 } else { 1 }));
        steps.push((kind.to_string(), name, 100 + i as u32, pick(r[3], nthreads)));
    }
    let kinds_registered: std::collections::BTreeSet<&String> = steps.iter().map(|s| &s.0).collect();
    if (kinds_registered.len() >= 2 && cross) || rereg || (nthreads >= 2 && steps.len() >= 2) {
        st.nontrivial(&format!("{}|{}|{}", shape, nthreads, trees.iter().map(|t| crate::props::c02::skeleton(t)).collect::<Vec<_>>().join("##")));
    }
    st.hist(&format!("threads:{}", nthreads));
    st.sample(|| json!({"asts": trees.iter().map(|t| t.render_explicit()).collect::<Vec<_>>(), "steps": steps.iter().map(|s| format!("{}[{}]@t{}", s.0, s.1, s.3)).collect::<Vec<_>>()}));
    if pre > 0 {
        st.hist("registrations-before-first-use");
    }
    if long_names {
        st.hist("long-similar-names");
    }
    run_history_pre(&trees, &steps, nthreads, pre, env, st)
}

fn fixed(env: &Env, st: &mut Stats) -> CaseResult {
    let tab = OpTable::builtin();
    // an AST with all nine kinds and shared spellings
    let text = "foo ( - a , a - b , c ++ , a ? b : c , foo , [ 1 , \"s\" ] , { 1 : 2 } , 1 not in [ 1 ] , { } , [ ] , 0.10 ) ; - foo ; x ++ ; ( 1 ; 2 )";
    let _ = text;
    let text = "foo ( - a , a - b , c ++ , a ? b : c , foo , [ 1 , \"s\" ] , { 1 : 2 } , 1 not in [ 1 ] , { } , [ ] , 0.10 ) ; - foo ; x ++";
    let (tree, _, _) = crate::syntax::parse_text(text, &tab).map_err(|e| Failure::new("harness-bug:fixed", e, json!({"text": text})))?;
    let empty = R::Stmts(vec![]);
    let mut i = 0u64;
    for kind in KINDS {
        for name in ["-", "foo", "++", "zz"] {
            i += 1;
            if !env.mine(i) {
                continue;
            }
            if !named(kind) && name != "-" {
                continue;
            }
            st.hist("single-registration-table");
            st.nontrivial(&format!("table:{}:{}", kind, name));
            run_history(&[tree.clone(), empty.clone()], &[(kind.to_string(), name.to_string(), 8, 0)], 1, env, st)?;
            run_history(&[tree.clone(), empty.clone()], &[(kind.to_string(), name.to_string(), 14, 0)], 1, env, st)?;
            // the same registration as the very first thing the process does
            run_history_pre(&[tree.clone(), empty.clone()], &[(kind.to_string(), name.to_string(), 9, 0)], 1, 1, env, st)?;
        }
    }
    st.set_extra("exhaustive_single_registration_table", json!(true));
    for (kind, name) in [("unary", "-"), ("binary", "-"), ("postfix", "++"), ("ternary", ""), ("function", "foo"), ("reference", "foo"), ("list", ""), ("map", ""), ("chain", "")] {
        for slow in [0u32, 30] {
            i += 1;
            if !env.mine(i) {
                continue;
            }
            st.hist("replace-race");
            st.nontrivial(&format!("race:{}:{}", kind, slow));
            run_race(&tree, kind, name, slow, 3, env, st)?;
        }
    }
    for threads in [2usize, 3, 4, 8] {
        i += 1;
        if !env.mine(i) {
            continue;
        }
        st.hist("concurrent-first-registrations");
        st.nontrivial(&format!("burst:{}", threads));
        run_burst(threads, env, st)?;
    }
    Ok(())
}

fn replay(case: &J, st: &mut Stats, env: &Env) -> CaseResult {
    let tab = OpTable::builtin();
    if let Some(b) = case.get("burst") {
        return run_burst(b["threads"].as_u64().unwrap_or(3) as usize, env, st);
    }
    if let Some(r) = case.get("race") {
        let (tree, _, _) = crate::syntax::parse_text(r["ast"].as_str().unwrap_or(""), &tab).map_err(|e| Failure::new("harness-bug:replay", e, case.clone()))?;
        return run_race(&tree, r["kind"].as_str().unwrap_or("list"), r["name"].as_str().unwrap_or(""), r["slow_drop_us"].as_u64().unwrap_or(0) as u32, r["readers"].as_u64().unwrap_or(3) as usize, env, st);
    }
    let mut trees = vec![];
    for t in case["asts"].as_array().cloned().unwrap_or_default() {
        let (r, _, _) = crate::syntax::parse_text(t.as_str().unwrap_or(""), &tab).map_err(|e| Failure::new("harness-bug:replay", e, case.clone()))?;
        trees.push(r);
    }
    let steps: Vec<(String, String, u32, usize)> = case["steps"]
        .as_array()
        .cloned()
        .unwrap_or_default()
        .iter()
        .map(|s| (s["kind"].as_str().unwrap_or("").to_string(), s["name"].as_str().unwrap_or("").to_string(), s["id"].as_u64().unwrap_or(0) as u32, s["thread"].as_u64().unwrap_or(0) as usize))
        .collect();
    run_history_pre(&trees, &steps, case["threads"].as_u64().unwrap_or(1) as usize, case["pre"].as_u64().unwrap_or(0) as usize, env, st)
}
