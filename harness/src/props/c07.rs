//! C07 — each subexpression runs once, left to right; conditionals are lazy; stop at first error.
use crate::handlers::Mode;
use crate::model::{agree, Ev, R};
use crate::props::obs::*;
use crate::props::sem::*;
use crate::runner::*;
use crate::src::Src;
use serde_json::{json, Value as J};

pub static PROP: Prop = Prop {
    id: "C07",
    rule: "cases: programs (1-5 statements, trees of depth <= 4, every compound operand parenthesised) in which observable nodes sit at every kind of position: calls t_i(args) and bare names t_i bound to logging context functions (some shadowing global functions), logging global functions vh_g_i(args), logging prefix/infix/postfix operators (one infix operator registered LEFT-, one RIGHT-associative) and a logging SETTER operator, as operands of every built-in infix operator (&& and || included), call arguments, list elements, map keys and values, condition and both branches of conditionals, statements, right sides of assignments, and as assignment targets (a name bound to a logging context function: reading the target invokes it); every logger returns a preset value of the type its position needs; in half of the cases one logger, chosen by its position k in the call order, is armed to return Err. A third of the programs are run a second time in the form the engine's own expr() writes them (parentheses only where grouping needs them, so comparison and arithmetic chains appear unparenthesised), with the same expectations. Oracle: the call log predicted by the reference traversal (post-order, children left to right, handler after its operands with exactly the operand values, key before value, only the selected branch): without fault the logs must be equal (same calls, same order, same arguments => each once, left to right); with a fault at k the result must be Err, the log must be the expected prefix of length k+1 and the context must equal the model's. Non-trivial: >= 3 observable nodes and (an observable inside an operand of another observable, or a conditional with observables in both branches, or an armed fault that is not the last call); distinct by (program skeleton, k).",
    assumptions: &[
        "no observable is placed under an assignment whose target is not a plain name, and no assignment targets a name bound to a context function (the statements do not pin what runs there)",
        "cases whose reference outcome is unspecified (rounding, inexact quotient) are excluded and counted",
    ],
    budget,
    setup: crate::handlers::setup,
    case,
    fixed: noop_fixed,
    replay: Some(replay),
    breadcrumb: false,
    fuzz: &[Fuzz { target: "choice", choice: true, runs: 300000, max_len: 960 }],
};

fn budget(t: Tier) -> Budget {
    Budget {
        cases: t.pick(3_000_000, 40_000_000),
        max_len: 240,
        shards: 16,
        dual_profile: false,
    }
}

pub fn check(tree: &R, sc: &crate::gen_sem::SemCtx, fault: Option<usize>, st: &mut Stats) -> CaseResult {
    let text = tree.render_explicit();
    let (ev, m) = run_model(tree, sc, fault);
    if matches!(ev, Ev::Unspec(_)) {
        st.exclude("reference-outcome-unspecified");
        return Ok(());
    }
    let mut a = Analysis {
        observables: 0,
        nested: false,
        cond_both: false,
    };
    analyse(tree, sc, false, &mut a);
    let armed_early = fault.map(|k| matches!(ev, Ev::Fault) && k + 1 == m.log.len()).unwrap_or(false);
    st.hist(&format!("outcome:{}", ev_class(&ev)));
    st.hist(&format!("log-length:{}", m.log.len().min(12)));
    if a.observables >= 3 && (a.nested || a.cond_both || (fault.is_some() && matches!(ev, Ev::Fault))) {
        let mut key = String::new();
        crate::gen_sem::op_key(tree, &mut key);
        st.nontrivial(&format!("{}@{:?}", key, fault));
    }
    let _ = armed_early;
    st.sample(|| json!({"text": text, "fault_at": fault, "expected_log": show_log(&m.log)}));
    let out = run_engine(&text, sc, fault.map(|k| (k, Mode::Err)));
    let case = || obs_case_json(tree, sc, fault, "err");
    if let Err(why) = agree(&out.engine, &ev) {
        let sig = if matches!(ev, Ev::Fault) { "result:error-swallowed".to_string() } else { format!("result:{}", root_op(tree)) };
        return Err(Failure::new(sig, format!("{}\n    {}\n    expected log: {}\n    engine log  : {}", text, why, show_log(&m.log), show_log(&out.log)), case()));
    }
    if !same_log(&m.log, &out.log) {
        let sig = log_signature(&m.log, &out.log, matches!(ev, Ev::Fault | Ev::Err(_)));
        return Err(Failure::new(
            format!("log:{}", sig),
            format!("{}\n    expected calls: {}\n    engine calls  : {}", text, show_log(&m.log), show_log(&out.log)),
            case(),
        ));
    }
    if let Err(why) = context_matches(&out.handle, &m.ctx, &names_in_play(sc)) {
        return Err(Failure::new(
            if matches!(ev, Ev::Fault | Ev::Err(_)) { "context:after-error" } else { "context:binding" },
            format!("{}\n    {}", text, why),
            case(),
        ));
    }
    // the same program as the engine itself writes it (expr(): parentheses only where the
    // grouping needs them, so operator chains appear unparenthesised): same calls, same order
    if text.len() % 3 == 0 {
        if let Ok(Ok(text2)) = guard(|| expression_engine::parse_expression(&text).map(|a| a.expr()).map_err(|e| e.to_string())) {
            if text2 != text {
                st.hist("also-run-as-written-by-expr");
                let out2 = run_engine(&text2, sc, fault.map(|k| (k, Mode::Err)));
                let mut case2 = case();
                case2["as_written_by_expr"] = json!(text2);
                if let Err(why) = agree(&out2.engine, &ev) {
                    return Err(Failure::new(
                        format!("minimal-parentheses:result:{}", root_op(tree)),
                        format!("{}\n    written by expr() as: {}\n    {}\n    expected log: {}\n    engine log  : {}", text, text2, why, show_log(&m.log), show_log(&out2.log)),
                        case2,
                    ));
                }
                if !same_log(&m.log, &out2.log) {
                    let sig = log_signature(&m.log, &out2.log, matches!(ev, Ev::Fault | Ev::Err(_)));
                    return Err(Failure::new(
                        format!("minimal-parentheses:log:{}", sig),
                        format!("{}\n    written by expr() as: {}\n    expected calls: {}\n    engine calls  : {}", text, text2, show_log(&m.log), show_log(&out2.log)),
                        case2,
                    ));
                }
            }
        }
    }
    Ok(())
}

fn case(src: &mut Src, st: &mut Stats, _env: &Env) -> CaseResult {
    st.eval();
    let c = obs_cfg();
    let want_fault = src.chance(1, 2);
    let kpos = src.raw();
    let sc = gen_obs_context(src, &c);
    let tree = gen_obs_program(src, &c, &sc);
    let fault = if want_fault {
        let (_, m0) = run_model(&tree, &sc, None);
        if m0.log.is_empty() {
            None
        } else {
            Some(((kpos as u64 * m0.log.len() as u64) >> 32) as usize)
        }
    } else {
        None
    };
    check(&tree, &sc, fault, st)
}

fn replay(case: &J, st: &mut Stats, _env: &Env) -> CaseResult {
    st.eval();
    let (tree, sc) = tree_from_case(case)?;
    check(&tree, &sc, case["fault_at"].as_u64().map(|k| k as usize), st)
}
