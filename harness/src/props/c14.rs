//! C14 — handlers may re-enter the engine without deadlock.
use crate::handlers::share;
use crate::model::V;
use crate::runner::*;
use crate::src::Src;
use expression_engine::verif_hooks::locks_free;
use expression_engine::{
    execute, parse_expression, register_function, register_infix_op, register_postfix_op, register_prefix_op, Context, InfixOpAssociativity, InfixOpType, Value,
};
use serde_json::{json, Value as J};
use std::io::Write;
use std::sync::{Arc, Mutex};
use std::time::Duration;

pub static PROP: Prop = Prop {
    id: "C14",
    rule: "cases: in a fresh child process per case, a chain of 1-4 handlers, each of one of 15 kinds {a global function called twice in one program, a context function that reads - through a second handle on its context - what the running program has bound so far and binds a name the program reads afterwards, a context function called as f(...) and used again by its bare name in the same program, global function, prefix operator, infix operator, postfix operator, SETTER operator, context function called as f(...), context function reached by the bare name f - alone, inside a list of names, as a map key, as a call argument, in a condition -, context function read as an assignment target (f = 1)}; every handler but the last re-enters the engine by executing a program that invokes the next handler; the last performs one of 16 re-entrant actions {replacing every running global function by another handler (the second call in the same program must reach the new one), registering the very function that the enclosing call is about to invoke, re-registering under their own names all the handlers that are running at that moment, registering an infix / postfix / prefix operator whose word occurs in a later statement of the outer program that is still running (the program was read before the handler ran, so its result is the one of the reading without that operator), parse_expression, execute with a fresh context (program using functions and all operator kinds), execute on the SAME context (read), execute on the same context (assignment), register_function, register_prefix_op, register_infix_op, register_postfix_op, lock the evaluating context's public handle and read it, get_variable/set_variable through a second handle}. Oracle (1, deterministic): the first thing every handler does is try_lock on all four registries, the descriptor store and the evaluating context: on this single-threaded evaluation every lock must be free; (2, behavioural): the action is really performed under a 10 s watchdog (normal: microseconds) and the outer evaluation must return the value computed by hand from the chain. The 15 x 16 single-handler matrix is enumerated exhaustively; chains are generated. Shared-handle scenarios (8 actions x 8 companion programs, enumerated): a context function, called as cf() or by the bare name, holds the guard of its context's public handle and re-enters the engine (execute with calls / with every operator kind, each register_*, parse_expression) while a SECOND evaluation runs on another Context made from the same handle (global call, context call, bare names, every operator kind, assignments); the holder lets the companion run into the guard for 30 ms first; both evaluations must return within the watchdog - the companion may wait for the context only while holding no engine lock. Non-trivial: every case (each combines handler kinds with a re-entrant action); distinct by (kind chain, action).",
    assumptions: &[
        "a watchdog expiry must reproduce on two more runs to count as a deadlock; the try_lock probe gives the precise lock",
        "lock state of the registries is read through the cfg-guarded locks_free() hook",
    ],
    budget,
    setup: noop_setup,
    case,
    fixed,
    replay: Some(replay),
    breadcrumb: false,
    fuzz: &[],
};

fn budget(t: Tier) -> Budget {
    Budget {
        cases: t.pick(40_000, 300_000),
        max_len: 16,
        shards: 16,
        dual_profile: false,
    }
}

pub const KINDS: [&str; 15] = [
    // a global function called twice in one program (its handler may replace it in between)
    "global-function-twice",
    // the context function looks at what the running program has bound so far, through a second
    // handle on its context, and binds something the program reads afterwards
    "ctx-function-sees-program-state",
    // the context function is used again after its first invocation has re-entered the engine
    "ctx-function-twice",
    "global-function", "prefix-op", "infix-op", "postfix-op", "setter-op", "ctx-function-call", "ctx-function-bare", "ctx-function-assign-target",
    "ctx-function-bare-in-list", "ctx-function-bare-in-map", "ctx-function-bare-as-argument", "ctx-function-bare-in-condition",
];
pub const ACTIONS: [&str; 16] = [
    // every global function that is running is replaced by another handler (returns 77)
    "replace-running-function",
    "register-callee",
    // re-register, under their own names, all the handlers that are running right now
    "register-running",
    // register an operator whose word occurs later in the outer program, which is still running
    "register-infix-used-later", "register-postfix-used-later", "register-prefix-used-later",
    "parse", "execute-fresh", "execute-same-context-read", "execute-same-context-assign", "register-function", "register-prefix", "register-infix", "register-postfix",
    "lock-context-handle", "second-handle-get-set",
];

struct Plan {
    chain: Vec<String>,
    action: String,
}

static PLAN: Mutex<Option<Arc<Plan>>> = Mutex::new(None);
/// the context of the evaluation whose handler is currently running, per level
static CONTEXTS: Mutex<Vec<Option<Context>>> = Mutex::new(Vec::new());

fn say(line: &str) {
    let mut o = std::io::stdout();
    let _ = writeln!(o, "{}", line);
    let _ = o.flush();
}

fn program_for(kind: &str, level: usize) -> String {
    match kind {
        "global-function" => format!("vh_c{}(1) + 1", level),
        "global-function-twice" => format!("vh_c{}(1) + vh_c{}(2)", level, level),
        "ctx-function-sees-program-state" => "vp = 7 ; cf(1) + vw".to_string(),
        "prefix-op" => format!("(vh_cp{} 1) + 1", level),
        "infix-op" => format!("(1 vh_ci{} 2) + 1", level),
        "postfix-op" => format!("(1 vh_cq{}) + 1", level),
        "setter-op" => format!("x vh_cs{} 1", level),
        // the same name at every level: each level has its own context
        "ctx-function-call" => "cf(1) + 1".to_string(),
        "ctx-function-twice" => "cf(1) + cf".to_string(),
        "ctx-function-bare" => "cf + 1".to_string(),
        // the bare name in positions that an implementation might resolve in bulk
        "ctx-function-bare-in-list" => "[v0 , cf , v0]".to_string(),
        "ctx-function-bare-in-map" => "{cf : v0}".to_string(),
        "ctx-function-bare-as-argument" => "min(cf , 99)".to_string(),
        "ctx-function-bare-in-condition" => "cf == 10 ? 11 : 0".to_string(),
        _ => "cf = 1".to_string(),
    }
}

/// the value a level of this kind yields when the chain ends in `action`
fn expected(kind: &str, action: &str) -> &'static str {
    match (kind, action) {
        // the second call reaches the handler registered by the first one's re-entrant action
        ("global-function-twice", "replace-running-function") => "n87",
        _ => expected_for(kind),
    }
}

fn expected_for(kind: &str) -> &'static str {
    match kind {
        "global-function-twice" => "n20",
        "ctx-function-sees-program-state" => "n15",
        "ctx-function-assign-target" | "setter-op" => "none",
        "ctx-function-bare-in-list" => "[n5,n10,n5]",
        "ctx-function-bare-in-map" => "{n10=>n5}",
        "ctx-function-bare-as-argument" => "n10",
        "ctx-function-twice" => "n20",
        _ => "n11",
    }
}

fn context_for(kind: &str, level: usize) -> Context {
    let mut ctx = Context::new();
    ctx.set_variable("v0", Value::from(5));
    if kind.starts_with("ctx-function") {
        ctx.set_func("cf", Arc::new(move |_| body(level)));
    }
    ctx
}

fn run_level(level: usize, plan: &Plan) -> Result<String, String> {
    let kind = &plan.chain[level];
    let ctx = context_for(kind, level);
    {
        let mut c = CONTEXTS.lock().unwrap();
        while c.len() <= level {
            c.push(None);
        }
        c[level] = Some(share(&ctx));
    }
    let mut text = program_for(kind, level);
    if level == 0 && kind == "global-function" && plan.action == "register-callee" {
        // `vh_late` does not exist yet: the handler of its argument registers it
        text = "vh_late(vh_c0(1)) + 1".to_string();
    }
    if level == 0 {
        // the words are plain names while the program is read; the handler registers them as
        // operators only while it runs, which must not change how the running program is read
        match plan.action.as_str() {
            "register-infix-used-later" => text.push_str(" ; 7 vh_lati 2"),
            "register-postfix-used-later" => text.push_str(" ; 7 vh_latq"),
            "register-prefix-used-later" => text.push_str(" ; 7 ; vh_latp 3"),
            _ => {}
        }
    }
    match execute(&text, ctx) {
        Ok(v) => Ok(V::from_value(&v).key()),
        Err(e) => Err(e.to_string()),
    }
}

fn register_handler(kind: &str, i: usize) {
    match kind {
        "global-function" | "global-function-twice" => register_function(&format!("vh_c{}", i), Arc::new(move |_| body(i))),
        "prefix-op" => register_prefix_op(&format!("vh_cp{}", i), Arc::new(move |_| body(i))),
        "infix-op" => register_infix_op(&format!("vh_ci{}", i), 130, InfixOpType::CALC, InfixOpAssociativity::LEFT, Arc::new(move |_, _| body(i))),
        "postfix-op" => register_postfix_op(&format!("vh_cq{}", i), Arc::new(move |_| body(i))),
        "setter-op" => register_infix_op(&format!("vh_cs{}", i), 20, InfixOpType::SETTER, InfixOpAssociativity::RIGHT, Arc::new(move |_, _| body(i))),
        _ => {}
    }
}

/// what the handler of level `level` does
fn body(level: usize) -> expression_engine::Result<Value> {
    let plan = PLAN.lock().unwrap().clone().expect("plan");
    let my_ctx = CONTEXTS.lock().unwrap()[level].as_ref().map(share).expect("context");
    // deterministic probe: on a single-threaded evaluation every engine lock must be free here
    let free = locks_free();
    let ctx_free = my_ctx.0.try_lock().is_ok();
    say(&format!("probe {} {}", level, json!({"registries": free, "context": ctx_free})));
    if plan.chain[level] == "ctx-function-sees-program-state" {
        let mut h = share(&my_ctx);
        say(&format!("sees-vp {} {:?}", level, h.get_variable("vp").map(|v| V::from_value(&v).key())));
        h.set_variable("vw", Value::from(5));
    }
    if level + 1 < plan.chain.len() {
        let r = run_level(level + 1, &plan);
        say(&format!("inner {} {:?}", level + 1, r));
    } else {
        say(&format!("action {}", plan.action));
        match plan.action.as_str() {
            "parse" => {
                let ok = parse_expression("1 + 2 * 3 - f(x) ? [1] : {2 : 3}").is_ok();
                say(&format!("action-result {}", ok));
            }
            "execute-fresh" => {
                let r = execute("sum(1, 2) + (- 1 ++) * 2 - min(4, 5) + (1 in [1] ? 1 : 0)", Context::new()).map(|v| V::from_value(&v).key()).map_err(|e| e.to_string());
                say(&format!("action-result {:?}", r));
            }
            "execute-same-context-read" => {
                let r = execute("v0 + 1", share(&my_ctx)).map(|v| V::from_value(&v).key()).map_err(|e| e.to_string());
                say(&format!("action-result {:?}", r));
            }
            "execute-same-context-assign" => {
                let r = execute("v1 = v0 * 2 ; v1", share(&my_ctx)).map(|v| V::from_value(&v).key()).map_err(|e| e.to_string());
                say(&format!("action-result {:?}", r));
            }
            "register-callee" => {
                register_function(
                    "vh_late",
                    Arc::new(|args| {
                        let x = args.into_iter().next().unwrap_or(Value::None).decimal()?;
                        Ok(Value::from(x + rust_decimal::Decimal::from(100)))
                    }),
                );
                say("action-result registered");
            }
            "replace-running-function" => {
                for (i, kind) in plan.chain.iter().enumerate() {
                    if kind.starts_with("global-function") {
                        register_function(&format!("vh_c{}", i), Arc::new(|_| Ok(Value::from(77))));
                    }
                }
                say("action-result registered");
            }
            "register-running" => {
                for (i, kind) in plan.chain.iter().enumerate() {
                    register_handler(kind, i);
                }
                say("action-result registered");
            }
            "register-infix-used-later" => {
                register_infix_op("vh_lati", 100, InfixOpType::CALC, InfixOpAssociativity::LEFT, Arc::new(|a, _| Ok(a)));
                say("action-result registered");
            }
            "register-postfix-used-later" => {
                register_postfix_op("vh_latq", Arc::new(|v| Ok(v)));
                say("action-result registered");
            }
            "register-prefix-used-later" => {
                register_prefix_op("vh_latp", Arc::new(|_| Ok(Value::from(77))));
                say("action-result registered");
            }
            "register-function" => {
                register_function("vh_new", Arc::new(|_| Ok(Value::from(1))));
                say("action-result registered");
            }
            "register-prefix" => {
                register_prefix_op("vh_newp", Arc::new(|v| Ok(v)));
                say("action-result registered");
            }
            "register-infix" => {
                register_infix_op("vh_newi", 100, InfixOpType::CALC, InfixOpAssociativity::LEFT, Arc::new(|a, _| Ok(a)));
                say("action-result registered");
            }
            "register-postfix" => {
                register_postfix_op("vh_newq", Arc::new(|v| Ok(v)));
                say("action-result registered");
            }
            "lock-context-handle" => {
                let g = my_ctx.0.lock().unwrap();
                let has = g.contains_key("v0");
                drop(g);
                say(&format!("action-result {}", has));
            }
            _ => {
                let mut h = share(&my_ctx);
                let a = h.get_variable("v0").map(|v| V::from_value(&v).key());
                h.set_variable("v2", Value::from(9));
                let b = h.get_variable("v2").map(|v| V::from_value(&v).key());
                say(&format!("action-result {:?} {:?}", a, b));
            }
        }
    }
    say(&format!("level-done {}", level));
    Ok(Value::from(10))
}

pub fn worker() -> i32 {
    use std::io::Read;
    install_panic_hook();
    let mut s = String::new();
    std::io::stdin().read_to_string(&mut s).ok();
    let doc: J = serde_json::from_str(&s).unwrap_or(json!({}));
    let plan = Arc::new(Plan {
        chain: doc["chain"].as_array().map(|a| a.iter().map(|x| x.as_str().unwrap_or("").to_string()).collect()).unwrap_or_default(),
        action: doc["action"].as_str().unwrap_or("parse").to_string(),
    });
    *PLAN.lock().unwrap() = Some(plan.clone());
    for (i, kind) in plan.chain.iter().enumerate() {
        register_handler(kind, i);
    }
    let r = guard(|| run_level(0, &plan));
    match r {
        Ok(Ok(k)) => say(&format!("result {}", k)),
        Ok(Err(e)) => say(&format!("result-err {}", e)),
        Err(p) => say(&format!("result-panic {}", p)),
    }
    // after the evaluation: the assignment-target kind must have replaced the function binding
    if plan.chain[0] == "ctx-function-assign-target" {
        let c = CONTEXTS.lock().unwrap()[0].as_ref().map(share).unwrap();
        say(&format!("binding {:?}", c.get_variable("cf").map(|v| V::from_value(&v).key())));
    }
    if plan.chain[0] == "setter-op" {
        let c = CONTEXTS.lock().unwrap()[0].as_ref().map(share).unwrap();
        say(&format!("binding {:?}", c.get_variable("x").map(|v| V::from_value(&v).key())));
    }
    say("done");
    0
}

pub fn run_case(chain: &[&str], action: &str, env: &Env, st: &mut Stats) -> CaseResult {
    let scenario = json!({"chain": chain, "action": action});
    let key = format!("{}>{}", chain.join(">"), action);
    st.eval();
    st.nontrivial(&key);
    st.hist(&format!("depth:{}", chain.len()));
    st.sample(|| scenario.clone());
    let mut attempts = 0;
    loop {
        attempts += 1;
        let out = run_child(&env.exe, &["worker", "c14"], &scenario.to_string(), Duration::from_secs(10));
        st.add_extra("child_processes", 1);
        // probes: any held lock on a single-threaded evaluation
        let mut held: Option<String> = None;
        for line in out.stdout.lines() {
            if let Some(rest) = line.strip_prefix("probe ") {
                let (lvl, js) = rest.split_once(' ').unwrap_or(("0", "{}"));
                let j: J = serde_json::from_str(js).unwrap_or(json!({}));
                let regs: Vec<bool> = j["registries"].as_array().map(|a| a.iter().map(|x| x.as_bool().unwrap_or(true)).collect()).unwrap_or_default();
                let names = ["prefix-registry", "infix-registry", "postfix-registry", "function-registry", "descriptor-store"];
                let lvl: usize = lvl.parse().unwrap_or(0);
                let kind = chain.get(lvl).copied().unwrap_or("?");
                for (i, f) in regs.iter().enumerate() {
                    if !f && held.is_none() {
                        held = Some(format!("lock-held:{}:{}", names.get(i).copied().unwrap_or("?"), kind));
                    }
                }
                if j["context"].as_bool() == Some(false) && held.is_none() {
                    held = Some(format!("lock-held:context:{}", kind));
                }
            }
        }
        if let Some(sig) = held {
            return Err(Failure::new(
                sig,
                format!("chain {:?}, action {}: the engine called a handler while holding a lock (a re-entrant use of it blocks forever); child output:\n{}", chain, action, out.stdout),
                scenario,
            ));
        }
        match out.end {
            ChildEnd::Exit(0) if out.stdout.contains("\ndone") || out.stdout.starts_with("done") => {
                let result = out.stdout.lines().find(|l| l.starts_with("result")).unwrap_or("result ?");
                let want = if chain[0] == "global-function" && action == "register-callee" {
                    "result n111".to_string()
                } else if action == "register-infix-used-later" {
                    // read before the handler ran: `7`, the name `vh_lati`, `2` - three statements
                    "result n2".to_string()
                } else if action == "register-postfix-used-later" {
                    // `7`, then the unbound name `vh_latq`
                    "result none".to_string()
                } else if action == "register-prefix-used-later" {
                    "result n3".to_string()
                } else {
                    format!("result {}", expected(chain[0], action))
                };
                if result != want {
                    return Err(Failure::new(
                        format!("wrong-result:{}:{}", chain[0], action),
                        format!("chain {:?}, action {}: outer evaluation gave `{}`, expected `{}`; child output:\n{}", chain, action, result, want, out.stdout),
                        scenario,
                    ));
                }
                // inner levels must have returned their values too
                for (lvl, kind) in chain.iter().enumerate().skip(1) {
                    let want = format!("inner {} Ok(\"{}\")", lvl, expected(kind, action));
                    if !out.stdout.lines().any(|l| l == want) {
                        return Err(Failure::new(
                            format!("wrong-inner-result:{}:{}", kind, action),
                            format!("chain {:?}, action {}: level {} did not return {}; child output:\n{}", chain, action, lvl, expected_for(kind), out.stdout),
                            scenario,
                        ));
                    }
                }
                for (lvl, kind) in chain.iter().enumerate() {
                    if *kind == "ctx-function-sees-program-state" && !out.stdout.lines().any(|l| l == format!("sees-vp {} Some(\"n7\")", lvl)) {
                        return Err(Failure::new(
                            format!("stale-context-view:{}", action),
                            format!("chain {:?}, action {}: the program `vp = 7 ; cf(1) + vw` had bound vp before calling cf, but cf, reading its context through the shared handle, did not see vp = 7; child output:\n{}", chain, action, out.stdout),
                            scenario,
                        ));
                    }
                }
                if chain[0] == "ctx-function-assign-target" && !out.stdout.contains("binding Some(\"n1\")") {
                    return Err(Failure::new("wrong-binding:ctx-function-assign-target", format!("after `cf = 1` the name is not bound to 1; output:\n{}", out.stdout), scenario));
                }
                if chain[0] == "setter-op" && !out.stdout.contains("binding Some(\"n10\")") {
                    return Err(Failure::new("wrong-binding:setter-op", format!("after `x vh_cs0 1` x is not bound to the handler's result; output:\n{}", out.stdout), scenario));
                }
                return Ok(());
            }
            ChildEnd::Timeout => {
                if attempts < 3 {
                    continue;
                }
                let lvl = out.stdout.lines().filter(|l| l.starts_with("probe ")).count().saturating_sub(1);
                return Err(Failure::new(
                    format!("hang:{}:{}", chain.get(lvl).copied().unwrap_or("?"), action),
                    format!("chain {:?}, action {}: no result within 10 s (three times) - deadlock; child output so far:\n{}", chain, action, out.stdout),
                    scenario,
                ));
            }
            other => {
                return Err(Failure::new(
                    format!("child:{:?}", other).replace(' ', ""),
                    format!("chain {:?}, action {}: child ended abnormally ({:?}); stdout:\n{}\nstderr: {}", chain, action, other, out.stdout, out.stderr),
                    scenario,
                ))
            }
        }
    }
}

// ----- a second evaluation on the same shared handle -----
//
// The context function of evaluation A holds the guard of its context's public handle and, still
// holding it, re-enters the engine.  Meanwhile evaluation B runs on a second Context made from the
// same handle, so B waits for the guard wherever it needs the context.  The property promises that A
// completes; that requires that B holds no engine lock while it waits for the context.

pub const SHARED_FORMS: [&str; 2] = ["call", "bare"];
pub const SHARED_ACTIONS: [&str; 8] = ["execute-call", "execute-operators", "register-function", "register-prefix", "register-infix", "register-postfix", "parse", "execute-same-handle"];
pub const SHARED_COMPANIONS: [&str; 8] = [
    "sum(1, 2)",
    "kf(2)",
    "v + 1",
    "- v",
    "v ++",
    "[sum(v), kf(v), v * 2, - v, v ++, v in [1], not (v == 2)]",
    "v = 5 ; v += 1 ; v",
    "kb",
];

pub fn worker_shared() -> i32 {
    use std::io::Read;
    use std::sync::mpsc::channel;
    install_panic_hook();
    let mut s = String::new();
    std::io::stdin().read_to_string(&mut s).ok();
    let doc: J = serde_json::from_str(&s).unwrap_or(json!({}));
    let form = doc["form"].as_str().unwrap_or("call").to_string();
    let action = doc["action"].as_str().unwrap_or("parse").to_string();
    let companion = doc["companion"].as_str().unwrap_or("1").to_string();
    let settle = Duration::from_millis(doc["settle_ms"].as_u64().unwrap_or(30));
    let _ = parse_expression("1"); // tables initialised before the clock matters
    let (go_tx, go_rx) = channel::<()>();
    let (started_tx, started_rx) = channel::<()>();
    let started_rx = Mutex::new(started_rx);
    let go_tx = Mutex::new(go_tx);
    let mut ctx_a = Context::new();
    let handle = ctx_a.0.clone();
    ctx_a.set_variable("v", Value::from(1));
    ctx_a.set_func("kf", Arc::new(|a| Ok(Value::List(a))));
    ctx_a.set_func("kb", Arc::new(|_| Ok(Value::from(9))));
    let h2 = handle.clone();
    let act = action.clone();
    ctx_a.set_func(
        "cf",
        Arc::new(move |_| {
            let guard = h2.lock().unwrap();
            let _ = go_tx.lock().unwrap().send(());
            let _ = started_rx.lock().unwrap().recv_timeout(Duration::from_secs(5));
            std::thread::sleep(settle); // B runs into the guard meanwhile
            say("action-begin");
            let r: Value = match act.as_str() {
                "execute-call" => execute("sum(1, 2) + max(3, 4)", Context::new())?,
                "execute-operators" => execute("x = 2 ; x += 1 ; [- x, x ++, x in [3], not false, x * 2]", Context::new()).map(|_| Value::from(1))?,
                "register-function" => {
                    register_function("vh_sf", Arc::new(|_| Ok(Value::from(1))));
                    Value::from(1)
                }
                "register-prefix" => {
                    register_prefix_op("vh_sp", Arc::new(|a| Ok(a)));
                    Value::from(1)
                }
                "register-infix" => {
                    register_infix_op("vh_si", 115, InfixOpType::CALC, InfixOpAssociativity::LEFT, Arc::new(|a, _| Ok(a)));
                    Value::from(1)
                }
                "register-postfix" => {
                    register_postfix_op("vh_sq", Arc::new(|a| Ok(a)));
                    Value::from(1)
                }
                "parse" => parse_expression("sum(1) + f(2) vh_x - [3 ++]").map(|a| a.expr().len()).map(|_| Value::from(1))?,
                // a Context made from the guarded map's contents would need the guard; instead the
                // handler evaluates on a fresh context a program of every node kind
                _ => execute("[min(1, 2), {1 : 2}, true ? 1 : 2, 'a' beginWith 'a']", Context::new()).map(|_| Value::from(1))?,
            };
            say("action-end");
            drop(guard);
            Ok(r)
        }),
    );
    let ctx_b = share(&ctx_a);
    let tb = std::thread::spawn(move || {
        let _ = go_rx.recv_timeout(Duration::from_secs(5));
        let _ = started_tx.send(());
        let r = guard(|| execute(&companion, ctx_b).map(|v| V::from_value(&v).key()).map_err(|e| e.to_string()));
        say(&format!("companion {:?}", r));
    });
    let text = if form == "call" { "cf()" } else { "cf" };
    let r = guard(|| execute(text, ctx_a).map(|v| V::from_value(&v).key()).map_err(|e| e.to_string()));
    say(&format!("outer {:?}", r));
    let _ = tb.join();
    say("done");
    0
}

pub fn run_shared(form: &str, action: &str, companion: &str, env: &Env, st: &mut Stats) -> CaseResult {
    let scenario = json!({"shared_handle": true, "form": form, "action": action, "companion": companion, "settle_ms": 30});
    st.eval();
    st.nontrivial(&format!("shared>{}>{}>{}", form, action, companion));
    st.hist("shared-handle-companion");
    st.sample(|| scenario.clone());
    let mut attempts = 0;
    loop {
        attempts += 1;
        let out = run_child(&env.exe, &["worker", "c14s"], &scenario.to_string(), Duration::from_secs(10));
        st.add_extra("child_processes", 1);
        match out.end {
            ChildEnd::Exit(0) if out.stdout.lines().any(|l| l == "done") => {
                let outer = out.stdout.lines().find(|l| l.starts_with("outer ")).unwrap_or("outer ?");
                let comp = out.stdout.lines().find(|l| l.starts_with("companion ")).unwrap_or("companion ?");
                if !outer.starts_with("outer Ok(Ok(") || comp.contains("PANIC") || comp.starts_with("companion Err") {
                    return Err(Failure::new(
                        format!("shared-handle:wrong-result:{}", action),
                        format!("context function ({}) holding its context's handle and doing `{}`, companion evaluation {:?} on the same handle: `{}`, `{}`; child output:\n{}", form, action, companion, outer, comp, out.stdout),
                        scenario,
                    ));
                }
                return Ok(());
            }
            ChildEnd::Timeout => {
                if attempts < 3 {
                    continue;
                }
                return Err(Failure::new(
                    format!("hang:shared-handle:{}", action),
                    format!(
                        "a context function ({}) holds the guard of its context's handle and does `{}`, while a second evaluation of {:?} runs on the same handle: no result within 10 s (three times) - the second evaluation waits for the context while holding an engine lock; child output so far:\n{}",
                        form, action, companion, out.stdout
                    ),
                    scenario,
                ));
            }
            other => {
                return Err(Failure::new(
                    format!("child:{:?}", other).replace(' ', ""),
                    format!("shared-handle scenario {}: child ended abnormally ({:?}); stdout:\n{}\nstderr: {}", scenario, other, out.stdout, out.stderr),
                    scenario,
                ))
            }
        }
    }
}

fn fixed(env: &Env, st: &mut Stats) -> CaseResult {
    let mut i = 0u64;
    // the shared-handle scenarios: every action x every companion program, form alternating
    for (ai, a) in SHARED_ACTIONS.iter().enumerate() {
        for (ci, c) in SHARED_COMPANIONS.iter().enumerate() {
            i += 1;
            if env.mine(i) {
                run_shared(SHARED_FORMS[(ai + ci) % 2], a, c, env, st)?;
            }
        }
    }
    for k in KINDS {
        for a in ACTIONS {
            i += 1;
            if env.mine(i) {
                run_case(&[k], a, env, st)?;
            }
        }
    }
    // every ordered pair of kinds with the most demanding actions
    for k1 in KINDS {
        for k2 in KINDS {
            for a in ["execute-fresh", "lock-context-handle", "register-function", "register-running", "register-infix-used-later"] {
                i += 1;
                if env.mine(i) {
                    run_case(&[k1, k2], a, env, st)?;
                }
            }
        }
    }
    st.set_extra("exhaustive_kind_x_action_matrix", json!(true));
    st.set_extra("exhaustive", json!(true));
    Ok(())
}

fn case(src: &mut Src, st: &mut Stats, env: &Env) -> CaseResult {
    let n = 2 + src.pick(3);
    let action = *src.choose(&ACTIONS);
    let chain: Vec<&str> = (0..n).map(|_| *src.choose(&KINDS)).collect();
    run_case(&chain, action, env, st)
}

fn replay(case: &J, st: &mut Stats, env: &Env) -> CaseResult {
    if case["shared_handle"].as_bool() == Some(true) {
        let f = SHARED_FORMS.iter().find(|x| Some(**x) == case["form"].as_str()).copied().unwrap_or("call");
        let a = SHARED_ACTIONS.iter().find(|x| Some(**x) == case["action"].as_str()).copied().unwrap_or("parse");
        return run_shared(f, a, case["companion"].as_str().unwrap_or("1"), env, st);
    }
    let chain: Vec<String> = case["chain"].as_array().map(|a| a.iter().map(|x| x.as_str().unwrap_or("").to_string()).collect()).unwrap_or_default();
    let refs: Vec<&str> = chain.iter().map(|s| KINDS.iter().find(|k| **k == s.as_str()).copied().unwrap_or("global-function")).collect();
    let action = ACTIONS.iter().find(|a| Some(**a) == case["action"].as_str()).copied().unwrap_or("parse");
    run_case(&refs, action, env, st)
}
