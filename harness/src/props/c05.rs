//! C05 — malformed input is rejected, never silently repaired (one-directional oracle).
use crate::eng::parse_ok;
use crate::gen_syntax::{gen_program, join, SynCfg};
use crate::runner::*;
use crate::src::Src;
use crate::syntax::{lex, OpTable, Recog, Tok, TK};
use serde_json::{json, Value as J};
use std::time::Duration;

pub static PROP: Prop = Prop {
    id: "C05",
    rule: "cases: (a) exhaustive: every sequence of length <= L over a 23-symbol alphabet of token classes {number, string, a multi-byte string, a bare multi-byte name character, strings spelling `,` and `:`, bool, name (a name before `(` is a function name), ( ) [ ] { } , ; ? : prefix-only `!`, infix-only `*`, prefix+infix `-`, postfix `++`, `not`, word infix `in`}, rendered with single blanks (L = 5 quick, 6 thorough); (b) corruptions: a valid program from the flat generator with 1-3 edits at token level (delete / insert / replace / swap a token, truncate) or at character level (delete a character, insert a structural character, unbalance a quote, splice `e` `.` into a number); (c) number-shaped text (1-34 digits, optional fraction, then junk from the number alphabet: e9, E5, e+3, .5, .., .1.2 ...) embedded in a program; a non-blank `whitespace` character (form feed, vertical tab, NBSP, U+2003, NEL, BOM) between a function name and `(` plus one more structural edit; (d) in fresh child processes: word operators registered at run time (over, pct, xor ... and spellings that are no identifiers: is-not, ~=, @@, не; symbolic operators that extend a built-in one, also with a character outside the operator characters: =~, **, <=>, -#), the same short token sequences around them parsed before and after the registration, each judged against the operator table in force. A quarter of the rejected inputs are also run through execute() with a context that binds a variable under the input's own text (it must be an error there too). In three races a registered infix / prefix / postfix word operator is re-registered thousands of times by one thread while three others parse an input in which that operator lacks its operand: every parse must be an error. Oracle (one-directional): if a lenient, nondeterministic recogniser of the documented grammar (optional `;` after any statement, optional trailing comma in list and map, any number of postfix operators, `not` as prefix or as negation marker) finds NO reading, parse_expression must return Err; a lexical error (unterminated string, malformed number) counts as no reading. Nothing is asserted when the recogniser accepts. Non-trivial: the recogniser rejects the input and it is a near-miss (some single-token deletion is accepted, or it came from a valid program by <= 3 edits); distinct by token-class sequence.",
    assumptions: &[
        "the recogniser reads the grammar as leniently as the statement allows, so a rejection means no reading exists; a trailing comma in a call is NOT among the stated leniencies and is treated as malformed",
        "inputs with more than 62 tokens are outside the recogniser's range and assert nothing",
    ],
    budget,
    setup: noop_setup,
    case,
    fixed,
    replay: Some(replay),
    breadcrumb: false,
    fuzz: &[Fuzz { target: "choice", choice: true, runs: 300000, max_len: 560 }],
};

fn budget(t: Tier) -> Budget {
    Budget {
        cases: t.pick(3_000_000, 30_000_000),
        max_len: 140,
        shards: 16,
        dual_profile: false,
    }
}

const ALPHABET: [(TK, &str); 23] = [
    (TK::Str, "'é'"),
    // strings whose text spells a separator: "treating one token as another"
    (TK::Str, "','"),
    (TK::Str, "':'"),
    (TK::Num, "1"),
    (TK::Str, "'s'"),
    (TK::Bool, "true"),
    (TK::Ref, "x"),
    (TK::Delim, "("),
    (TK::Delim, ")"),
    (TK::Delim, "["),
    (TK::Delim, "]"),
    (TK::Delim, "{"),
    (TK::Delim, "}"),
    (TK::Comma, ","),
    (TK::Semi, ";"),
    (TK::Op, "?"),
    (TK::Op, ":"),
    (TK::Op, "!"),
    (TK::Op, "*"),
    (TK::Op, "-"),
    (TK::Op, "++"),
    (TK::Op, "not"),
    (TK::Op, "in"),
];

fn class_key(toks: &[Tok]) -> String {
    toks.iter()
        .map(|t| match t.kind {
            TK::Op | TK::Delim | TK::Comma | TK::Semi => t.text.clone(),
            k => k.name().to_string(),
        })
        .collect::<Vec<_>>()
        .join(" ")
}

fn near_miss(toks: &[Tok], tab: &OpTable) -> bool {
    for i in 0..toks.len() {
        let mut v: Vec<Tok> = toks.to_vec();
        v.remove(i);
        fix_funcs(&mut v);
        if Recog::accepts(&v, tab) {
            return true;
        }
    }
    false
}

fn fix_funcs(v: &mut [Tok]) {
    for i in 0..v.len() {
        if matches!(v[i].kind, TK::Ref | TK::Func) {
            let next_paren = v.get(i + 1).map(|t| t.is_delim("(")).unwrap_or(false);
            v[i].kind = if next_paren { TK::Func } else { TK::Ref };
        }
    }
}

/// `toks`: the token stream of `text` by the documented rules, or None on a lexical error
fn judge(text: &str, toks: Option<&[Tok]>, tab: &OpTable, derived: bool, st: &mut Stats) -> CaseResult {
    let model_accepts = match toks {
        Some(t) => Recog::accepts(t, tab),
        None => false,
    };
    let engine = parse_ok(text);
    let engine_accepts = match &engine {
        Ok(Ok(())) => true,
        Ok(Err(_)) => false,
        Err(p) => {
            return Err(Failure::new("panic", format!("{:?}: {}", text, p), json!({"text": text})));
        }
    };
    match (model_accepts, engine_accepts) {
        (true, true) => st.hist("accepted-by-both"),
        (true, false) => st.hist("lenient-reading-exists-engine-rejects"),
        (false, false) => {
            st.hist("rejected-by-both");
            // "and therefore execute": whatever the context holds - here a variable bound under
            // the very text - a malformed program is an error there too
            if (text.len() + text.bytes().map(|b| b as usize).sum::<usize>()) % 4 == 0 {
                let mut ctx = expression_engine::Context::new();
                ctx.set_variable(text.trim(), expression_engine::Value::from(1));
                ctx.set_variable(text, expression_engine::Value::from(2));
                match guard(|| expression_engine::execute(text, ctx).map_err(|e| e.to_string())) {
                    Ok(Err(_)) => st.hist("execute-with-context-rejects"),
                    Ok(Ok(v)) => {
                        return Err(Failure::new(
                            "accepted-malformed:execute-with-context",
                            format!("{:?} is rejected by parse_expression, but execute() with a context that binds a variable of that name returned {:?}", text, v),
                            json!({"text": text}),
                        ))
                    }
                    Err(p) => return Err(Failure::new("panic", format!("execute {:?}: {}", text, p), json!({"text": text}))),
                }
            }
            if let Some(t) = toks {
                if derived || near_miss(t, tab) {
                    st.nontrivial(&class_key(t));
                }
            } else {
                st.nontrivial(&format!("lexical:{}", text.chars().map(|c| if c.is_ascii_alphanumeric() { 'a' } else { c }).collect::<String>()));
            }
        }
        (false, true) => {
            let why = if toks.is_none() { "lexically malformed (unterminated string or malformed number)" } else { "not a sentence of the grammar under any lenient reading" };
            return Err(Failure::new(
                if toks.is_none() { "accepted-malformed:lexical" } else { "accepted-malformed" },
                format!("{:?} is {}, but parse_expression accepted it", text, why),
                json!({"text": text}),
            ));
        }
    }
    Ok(())
}

fn enumerate(len: usize, env: &Env, tab: &OpTable, st: &mut Stats) -> CaseResult {
    let mut idx = vec![0usize; len];
    let mut toks: Vec<Tok> = Vec::with_capacity(len);
    let mut text = String::new();
    loop {
        // shard by the first two symbols
        let shard_key = if len >= 2 { idx[0] * ALPHABET.len() + idx[1] } else { idx[0] };
        if env.mine(shard_key as u64) {
            toks.clear();
            text.clear();
            for (k, &i) in idx.iter().enumerate() {
                let (kind, t) = ALPHABET[i];
                if k > 0 {
                    text.push(' ');
                }
                text.push_str(t);
                toks.push(Tok::new(kind, t));
            }
            fix_funcs(&mut toks);
            st.eval();
            judge(&text, Some(&toks), tab, false, st)?;
        }
        // next
        let mut k = len;
        loop {
            if k == 0 {
                return Ok(());
            }
            k -= 1;
            idx[k] += 1;
            if idx[k] < ALPHABET.len() {
                break;
            }
            idx[k] = 0;
        }
    }
}

fn fixed(env: &Env, st: &mut Stats) -> CaseResult {
    // an input that is malformed because of a registered operator (the operator lacks its operand)
    // stays rejected while that operator is being re-registered by another thread: C13's race
    // runner with the malformed texts `1 hi` (infix), `hi` (prefix), `hi 1` (postfix)
    for (k, kind) in ["infix", "prefix", "postfix"].iter().enumerate() {
        if env.mine(7_000 + k as u64) {
            st.hist("rejected-during-re-registration");
            crate::props::c13::run_regrace(kind, 3, 3, env.tier.pick(4_000, 60_000), false, env, st).map_err(|mut f| {
                f.detail = format!("(re-registration race, replay with ./check C13 --replay) {}", f.detail);
                f
            })?;
        }
    }
    let tab = OpTable::builtin();
    let max = env.tier.pick(5, 6);
    if env.shard == 0 {
        st.eval();
        judge("", Some(&[]), &tab, false, st)?;
    }
    for len in 1..=max {
        enumerate(len, env, &tab, st)?;
    }
    st.set_extra("exhaustive_token_sequences_up_to_length", json!(max));
    st.set_extra("exhaustive", json!(true));
    Ok(())
}

const STRUCT_CHARS: [&str; 19] = ["(", ")", "[", "]", "{", "}", ",", ";", "?", ":", "'", "\"", "e", ".", "+", "*", "\u{c}", "\u{a0}", "\u{b}"];

/// number-like text: digits, at most a few dots, then junk from the number alphabet
fn gen_number_like(src: &mut Src) -> String {
    let int = 1 + src.pick(34);
    let mut s = String::new();
    for i in 0..int {
        s.push((b'0' + src.range(if i == 0 { 1 } else { 0 }, 9) as u8) as char);
    }
    if src.chance(2, 3) {
        s.push('.');
        let frac = src.pick(14);
        for _ in 0..frac {
            s.push((b'0' + src.range(0, 9) as u8) as char);
        }
    }
    let junk = ["", "e9", "e", "E5", "e+3", "e-2", ".5", "..", ".1.2", "e1e1", "E", "e+", "."];
    s.push_str(*src.choose(&junk));
    s
}

/// child: {"pre_texts", "ops", "texts"} -> {"pre": [bool], "post": [bool]} (parse accepted?)
pub fn worker() -> i32 {
    use std::io::Read;
    install_panic_hook();
    let mut s = String::new();
    std::io::stdin().read_to_string(&mut s).ok();
    let doc: J = serde_json::from_str(&s).unwrap_or(json!({}));
    let run = |texts: &J| -> Vec<J> {
        texts
            .as_array()
            .cloned()
            .unwrap_or_default()
            .iter()
            .map(|t| match parse_ok(t.as_str().unwrap_or("")) {
                Ok(Ok(())) => json!(true),
                Ok(Err(_)) => json!(false),
                Err(p) => json!(format!("PANIC {}", p)),
            })
            .collect()
    };
    let pre = run(&doc["pre_texts"]);
    for op in doc["ops"].as_array().cloned().unwrap_or_default() {
        crate::props::register_op(&op, 0);
    }
    let post = run(&doc["texts"]);
    println!("{}", json!({"pre": pre, "post": post}));
    0
}

/// operator tables extended at run time: the same texts are parsed before and after the
/// registration, each judged against the table in force
fn history_case(src: &mut Src, st: &mut Stats, env: &Env) -> CaseResult {
    let builtin = OpTable::builtin();
    let mut tab = builtin.clone();
    let nops = 1 + src.pick(3);
    let mut ops = vec![];
    let mut names = vec![];
    for i in 0..nops {
        let kind = *src.choose(&["infix", "prefix", "postfix"]);
        let name = *src.choose(&["over", "pct", "xor", "mod", "nand", "sq", "is-not", "~=", "@@", "не", "=~", "**", "<=>", "-#"]);
        if names.contains(&name.to_string()) {
            continue;
        }
        // keep postfix spellings disjoint from prefix/infix ones
        match kind {
            "infix" => {
                tab.infix.insert(name.to_string(), (100 + i as i64, false));
            }
            "prefix" => {
                tab.prefix.insert(name.to_string());
            }
            _ => {
                tab.postfix.insert(name.to_string());
            }
        }
        names.push(name.to_string());
        ops.push(json!({"kind": kind, "name": name, "prec": 100 + i as i64, "right": false}));
    }
    // short sequences around the new words: "an operator without its operand"
    let mut texts = vec![];
    for _ in 0..10 {
        let n = 1 + src.pick(4);
        let mut parts: Vec<String> = vec![];
        for _ in 0..n {
            if src.chance(1, 2) {
                parts.push(src.choose(&names).clone());
            } else {
                parts.push(ALPHABET[src.pick(ALPHABET.len())].1.to_string());
            }
        }
        texts.push(parts.join(" "));
    }
    let scenario = json!({"pre_texts": texts, "ops": ops, "texts": texts});
    let out = run_child(&env.exe, &["worker", "c05"], &scenario.to_string(), Duration::from_secs(30));
    st.add_extra("child_processes", 1);
    let doc: J = match (&out.end, serde_json::from_str::<J>(out.stdout.trim())) {
        (ChildEnd::Exit(0), Ok(d)) => d,
        _ => return Err(Failure::new("child:crash", format!("child ended with {:?}; stderr {}", out.end, out.stderr), scenario)),
    };
    for (phase, table) in [("pre", &builtin), ("post", &tab)] {
        for (i, text) in texts.iter().enumerate() {
            st.eval();
            st.hist(&format!("history:{}", phase));
            let accepted = match &doc[phase][i] {
                J::Bool(b) => *b,
                other => return Err(Failure::new("panic", format!("{:?}: {}", text, other), scenario)),
            };
            let (toks, e) = lex(text, table);
            let reading = e.is_none() && Recog::accepts(&toks, table);
            if !reading {
                st.nontrivial(&format!("history:{}:{}", phase, class_key(&toks)));
            }
            if accepted && !reading {
                return Err(Failure::new(
                    if phase == "post" { "accepted-malformed:after-registration" } else { "accepted-malformed" },
                    format!(
                        "{:?} has no reading under the operator table in force ({} registering {}), but parse_expression accepted it",
                        text,
                        if phase == "post" { "after" } else { "before" },
                        json!(ops)
                    ),
                    json!({"history": scenario, "text": text, "phase": phase}),
                ));
            }
        }
    }
    Ok(())
}

fn case(src: &mut Src, st: &mut Stats, env: &Env) -> CaseResult {
    match src.weighted(&[40, 6, 1, 3]) {
        1 => {
            st.eval();
            let tab = OpTable::builtin();
            let num = gen_number_like(src);
            let text = match src.pick(4) {
                0 => num.clone(),
                1 => format!("x + {}", num),
                2 => format!("[{}]", num),
                _ => format!("f({} , 1)", num),
            };
            st.hist("corruption:number-shape");
            st.sample(|| json!({"text": text}));
            let (toks, e) = lex(&text, &tab);
            return judge(&text, if e.is_some() { None } else { Some(&toks) }, &tab, true, st);
        }
        2 => return history_case(src, st, env),
        3 => {
            // a call whose name is separated from `(` by a character that is NOT one of the four
            // blanks (form feed, vertical tab, NBSP ...), then one more structural edit
            st.eval();
            let tab = OpTable::builtin();
            let odd = *src.choose(&["\u{c}", "\u{b}", "\u{a0}", "\u{2003}", "\u{85}", "\u{feff}"]);
            let f = *src.choose(&["max", "f", "min", "g"]);
            let args = *src.choose(&["7", "1 , 2", "", "a + 1", "[1]"]);
            let mut text = match src.pick(4) {
                0 => format!("{}{}({})", f, odd, args),
                1 => format!("{} {} ({})", f, odd, args),
                2 => format!("[{}{}({}) , 2]", f, odd, args),
                _ => format!("x = {}{}({}) ; x", f, odd, args),
            };
            let mut chars: Vec<char> = text.chars().collect();
            let pos = src.pick(chars.len() + 1);
            match src.pick(4) {
                0 => chars.insert(pos, *src.choose(&[')', ']', '}', ',', '('])),
                1 => {
                    if let Some(p) = chars.iter().position(|c| *c == ')') {
                        chars.insert(p, ')');
                    }
                }
                2 => {
                    if !chars.is_empty() {
                        chars.remove(pos.min(chars.len() - 1));
                    }
                }
                _ => {}
            }
            text = chars.into_iter().collect();
            st.hist("corruption:odd-whitespace-before-paren");
            st.sample(|| json!({"text": text}));
            let (toks, e) = lex(&text, &tab);
            return judge(&text, if e.is_some() { None } else { Some(&toks) }, &tab, true, st);
        }
        _ => {}
    }
    st.eval();
    let tab = OpTable::builtin();
    let mut cfg = SynCfg::new(&tab);
    cfg.max_depth = 3;
    cfg.max_operands = 5;
    let token_level = src.chance(1, 2);
    let nedits = 1 + src.pick(3);
    let base = gen_program(src, &cfg);
    if token_level {
        let mut v = base.clone();
        for _ in 0..nedits {
            let pos = src.pick(v.len() + 1);
            match src.pick(5) {
                0 if !v.is_empty() => {
                    v.remove(pos.min(v.len() - 1));
                }
                1 => {
                    let (k, t) = ALPHABET[src.pick(ALPHABET.len())];
                    v.insert(pos.min(v.len()), Tok::new(k, t));
                }
                2 if !v.is_empty() => {
                    let (k, t) = ALPHABET[src.pick(ALPHABET.len())];
                    let p = pos.min(v.len() - 1);
                    v[p] = Tok::new(k, t);
                }
                3 if v.len() >= 2 => {
                    let p = pos.min(v.len() - 2);
                    v.swap(p, p + 1);
                }
                _ => {
                    v.truncate(pos);
                }
            }
        }
        fix_funcs(&mut v);
        let text = join(&v);
        st.hist("corruption:token-level");
        st.sample(|| json!({"text": text, "from": join(&base)}));
        // the text is re-tokenized: an edit may have glued or split nothing (single blanks), but
        // a name may now stand before `(`
        let (toks, e) = lex(&text, &tab);
        judge(&text, if e.is_some() { None } else { Some(&toks) }, &tab, true, st)
    } else {
        let mut text: Vec<char> = join(&base).chars().collect();
        for _ in 0..nedits {
            let pos = src.pick(text.len() + 1);
            match src.pick(4) {
                0 if !text.is_empty() => {
                    text.remove(pos.min(text.len() - 1));
                }
                1 | 2 => {
                    let ins = *src.choose(&STRUCT_CHARS);
                    for (k, c) in ins.chars().enumerate() {
                        text.insert(pos.min(text.len()) + k, c);
                    }
                }
                _ => {
                    text.truncate(pos);
                }
            }
        }
        let text: String = text.into_iter().collect();
        st.hist("corruption:character-level");
        st.sample(|| json!({"text": text, "from": join(&base)}));
        let (toks, e) = lex(&text, &tab);
        judge(&text, if e.is_some() { None } else { Some(&toks) }, &tab, true, st)
    }
}

fn replay(case: &J, st: &mut Stats, env: &Env) -> CaseResult {
    st.eval();
    if case.get("mode").is_some() {
        // a re-registration race borrowed from C13
        return crate::props::c13::replay(case, st, env);
    }
    let tab = OpTable::builtin();
    let text = case["text"].as_str().unwrap_or("");
    let (toks, e) = lex(text, &tab);
    judge(text, if e.is_some() { None } else { Some(&toks) }, &tab, true, st)
}
