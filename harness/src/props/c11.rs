//! C11 — whitespace and redundant parentheses never change the parse.
use crate::eng::parse_sexp;
use crate::gen_syntax::{gen_program_x, join, SynCfg};
use crate::runner::*;
use crate::src::Src;
use crate::syntax::{lex, parse_tokens, OpTable, Tok, TK};
use serde_json::{json, Value as J};

pub static PROP: Prop = Prop {
    id: "C11",
    rule: "cases: a well-formed program from the flat generator (all constructs; names are never operator words; strings contain blanks, tabs, newlines, operator and delimiter characters) is rendered three ways: canonical (one blank between tokens), `original` (each boundary empty where gluing is lexically safe, or a random string over {space, tab, CR, LF} of length 1-3) and `transformed` (every empty boundary gets a random whitespace string of length 0-3, every non-empty one is replaced by another non-empty string; leading/trailing whitespace added); whitespace runs of 10^3, 2*10^4 and 2*10^5 (thorough 2*10^6) characters at one boundary are parsed in dev and release child processes; additionally 1-2 complete subexpressions (token spans from the reference parser, any node kind except the statement list) are wrapped in 1-3 pairs of parentheses. One case in 40 first parses a rejected program with groups left open (state must not carry over). Oracle (metamorphic): all accepted renderings parse to the same AST, string payloads byte-identical. Non-trivial: >= 5 tokens and the transformation touches >= 2 boundaries of different token-class pairs, or wraps a non-leaf node; distinct by (set of class pairs touched, wrapped node kinds).",
    assumptions: &[
        "token boundaries come from the generator; a boundary is left empty only if the reference tokenizer splits the glued text into exactly the generated tokens",
        "programs whose canonical rendering the engine rejects, or parses differently from the reference parser (then subexpression spans are unknown), are excluded and counted; C02 reports those",
    ],
    budget,
    setup: noop_setup,
    case,
    fixed,
    replay: Some(replay),
    breadcrumb: false,
    fuzz: &[Fuzz { target: "choice", choice: true, runs: 300000, max_len: 1040 }],
};

fn budget(t: Tier) -> Budget {
    Budget {
        cases: t.pick(1_500_000, 20_000_000),
        max_len: 260,
        shards: 16,
        dual_profile: false,
    }
}

const WS: [&str; 4] = [" ", "\t", "\r", "\n"];

fn gen_ws(src: &mut Src, min: usize) -> String {
    let n = min + src.pick(4 - min);
    (0..n).map(|_| *src.choose(&WS)).collect()
}

fn class(t: &Tok) -> &'static str {
    match t.kind {
        TK::Op => {
            if t.text.chars().next().map(|c| crate::syntax::SPECIAL.contains(c)).unwrap_or(false) {
                "sym"
            } else {
                "word"
            }
        }
        TK::Delim => match t.text.as_str() {
            "(" | "[" | "{" => "open",
            _ => "close",
        },
        k => k.name(),
    }
}

fn same_tokens(a: &[Tok], b: &[Tok]) -> bool {
    a.len() == b.len() && a.iter().zip(b).all(|(x, y)| x.kind == y.kind && x.text == y.text)
}

fn render(toks: &[Tok], seps: &[String], lead: &str, trail: &str) -> String {
    let mut s = String::from(lead);
    for (i, t) in toks.iter().enumerate() {
        if i > 0 {
            s.push_str(&seps[i - 1]);
        }
        s.push_str(&t.text);
    }
    s.push_str(trail);
    s
}

fn compare(label: &str, text: &str, want: &str, canonical: &str) -> CaseResult {
    let case = json!({"canonical": canonical, "variant": text, "kind": label});
    match parse_sexp(text) {
        Ok(Ok(got)) if got == want => Ok(()),
        Ok(Ok(got)) => Err(Failure::new(
            format!("{}:changes-tree", label),
            format!("canonical {:?}\n    variant   {:?}\n    tree of canonical: {}\n    tree of variant  : {}", canonical, text, want, got),
            case,
        )),
        Ok(Err(e)) => Err(Failure::new(
            format!("{}:rejected", label),
            format!("canonical {:?} is accepted but the variant {:?} is rejected: {}", canonical, text, e),
            case,
        )),
        Err(p) => Err(Failure::new(format!("{}:panic", label), format!("{:?}: {}", text, p), case)),
    }
}

fn case(src: &mut Src, st: &mut Stats, _env: &Env) -> CaseResult {
    st.eval();
    if src.pick(40) == 0 {
        // an earlier, rejected input with groups left open must not influence later parses
        let junk = format!("{}a + ", ["(", "[", "f(", "{1:"][src.pick(4)].repeat(1 + src.pick(12)));
        let _ = parse_sexp(&junk);
        st.hist("rejected-program-parsed-first");
    }
    let tab = OpTable::builtin();
    let cfg = SynCfg::new(&tab);
    let (toks, omitted_semi) = gen_program_x(src, &cfg);
    let canonical = join(&toks);
    let (tree, spans) = match parse_tokens(&toks, &tab) {
        Ok(x) => x,
        Err(e) => return Err(Failure::new("harness-bug:generator", format!("{} ({})", canonical, e), json!({"canonical": canonical}))),
    };
    let want = match parse_sexp(&canonical) {
        Ok(Ok(s)) => s,
        Ok(Err(_)) => {
            st.exclude("canonical-rejected");
            return Ok(());
        }
        Err(p) => return Err(Failure::new("ws:panic", format!("{:?}: {}", canonical, p), json!({"canonical": canonical}))),
    };

    // --- whitespace ---
    let n = toks.len();
    let mut seps: Vec<String> = Vec::with_capacity(n.saturating_sub(1));
    for i in 1..n {
        let want_empty = src.chance(1, 2);
        let mut sep = gen_ws(src, 1);
        if want_empty {
            // glue only when the pair still splits into exactly these two tokens (the
            // look-ahead of a name needs the token after it, so include one more)
            let hi = (i + 2).min(n);
            let mut glued = format!("{}{}", toks[i - 1].text, toks[i].text);
            for t in &toks[i + 1..hi] {
                glued.push(' ');
                glued.push_str(&t.text);
            }
            let (lx, e) = lex(&glued, &tab);
            if e.is_none() && same_tokens(&lx, &toks[i - 1..hi]) {
                sep = String::new();
            }
        }
        seps.push(sep);
    }
    let mut original = render(&toks, &seps, "", "");
    {
        let (lx, e) = lex(&original, &tab);
        if e.is_some() || !same_tokens(&lx, &toks) {
            st.exclude("gluing-fallback");
            seps = vec![" ".to_string(); n.saturating_sub(1)];
            original = canonical.clone();
        }
    }
    let mut touched = std::collections::BTreeSet::new();
    let mut seps2 = Vec::with_capacity(seps.len());
    for (i, s) in seps.iter().enumerate() {
        let new = if s.is_empty() { gen_ws(src, 0) } else { gen_ws(src, 1) };
        if &new != s {
            touched.insert(format!("{}|{}", class(&toks[i]), class(&toks[i + 1])));
        }
        seps2.push(new);
    }
    let lead = gen_ws(src, 0);
    let trail = gen_ws(src, 0);
    let transformed = render(&toks, &seps2, &lead, &trail);
    for t in &touched {
        st.hist(&format!("ws:{}", t));
    }

    // --- parentheses (only when the engine's tree is the reference tree: spans are then known) ---
    let mut wrapped_kinds = vec![];
    let mut wrapped_text = None;
    if omitted_semi {
        // `a (b)` would read as a call: with an omitted `;` a wrapped statement start is ambiguous
        st.exclude("paren-wrap-skipped:omitted-semicolon");
    } else {
        // operator-level spans are only known when the engine's tree is the reference tree;
        // atoms and bracketed constructs are complete subexpressions under any operator table
        let same = tree.sexp() == want;
        if !same {
            st.exclude("operator-spans-skipped:engine-tree-differs-from-reference");
        }
        let cands: Vec<&crate::syntax::Span> = spans
            .iter()
            .filter(|s| s.kind != "stmts" && s.end > s.start && (same || matches!(s.kind, "num" | "str" | "bool" | "ref" | "call" | "list" | "map" | "paren")))
            .collect();
        if !cands.is_empty() {
            let mut w = toks.clone();
            let k = 1 + src.pick(2);
            // wrap from the right so that earlier indices stay valid; nested or disjoint spans only
            let mut picks: Vec<(usize, usize, usize, &'static str)> = vec![];
            for _ in 0..k {
                let s = cands[src.pick(cands.len())];
                let mult = 1 + src.pick(3);
                if picks.iter().all(|p| (s.end <= p.0 || s.start >= p.1) || (s.start <= p.0 && s.end >= p.1) || (s.start >= p.0 && s.end <= p.1)) {
                    picks.push((s.start, s.end, mult, s.kind));
                }
            }
            // apply: insert closers first (higher index), then openers
            let mut ins: Vec<(usize, bool, usize)> = vec![]; // (position, is_open, order)
            for (j, p) in picks.iter().enumerate() {
                for _ in 0..p.2 {
                    ins.push((p.1, false, j));
                    ins.push((p.0, true, j));
                }
                wrapped_kinds.push(p.3);
                st.hist(&format!("paren:{}", p.3));
            }
            // applied from the highest position down; at one position openers are inserted first,
            // so that the closers of a preceding span end up in front of them
            ins.sort_by(|a, b| b.0.cmp(&a.0).then(b.1.cmp(&a.1)));
            for (pos, open, _) in ins {
                w.insert(pos, Tok::new(TK::Delim, if open { "(" } else { ")" }));
            }
            wrapped_text = Some(join(&w));
        }
    }

    let nontrivial = n >= 5 && (touched.len() >= 2 || wrapped_kinds.iter().any(|k| !matches!(*k, "num" | "str" | "bool" | "ref")));
    if nontrivial {
        st.nontrivial(&format!("{:?}|{:?}", touched, wrapped_kinds));
    }
    st.sample(|| json!({"canonical": canonical, "original": original, "transformed": transformed, "wrapped": wrapped_text}));
    compare("ws", &original, &want, &canonical)?;
    compare("ws", &transformed, &want, &canonical)?;
    if let Some(w) = &wrapped_text {
        compare("paren", w, &want, &canonical)?;
    }
    Ok(())
}

/// child: {"text": ...} -> the S-expression of the parsed program, or ERR
pub fn worker() -> i32 {
    use std::io::Read;
    install_panic_hook();
    let mut s = String::new();
    std::io::stdin().read_to_string(&mut s).ok();
    let doc: J = serde_json::from_str(&s).unwrap_or(json!({}));
    match parse_sexp(doc["text"].as_str().unwrap_or("")) {
        Ok(Ok(x)) => println!("{}", x),
        Ok(Err(e)) => println!("ERR {}", e),
        Err(p) => println!("PANIC {}", p),
    }
    0
}

/// very long whitespace runs at one or all token boundaries, in the dev and the release build
fn long_runs(env: &Env, st: &mut Stats) -> CaseResult {
    let tab = OpTable::builtin();
    let programs = ["a + b", "f ( 1 , [ 2 ] )", "x = 'p q' ; x"];
    let lens: Vec<usize> = vec![1000, 20_000, env.tier.pick(200_000, 2_000_000)];
    let mut i = 0u64;
    for p in programs {
        let want = match parse_sexp(p) {
            Ok(Ok(s)) => s,
            _ => continue,
        };
        let (toks, _) = lex(p, &tab);
        for n in &lens {
            for profile in ["release", "debug"] {
                i += 1;
                if !env.mine(i) {
                    continue;
                }
                st.eval();
                st.hist(&format!("long-whitespace-run:{}", profile));
                st.nontrivial(&format!("long:{}:{}:{}", p, n, profile));
                let run: String = " \t\r\n".repeat(n / 4);
                let seps: Vec<String> = (0..toks.len().saturating_sub(1)).map(|k| if k == 0 { run.clone() } else { " ".to_string() }).collect();
                let text = render(&toks, &seps, &run, "");
                let exe = format!("{}/out/target/{}/vh", VERIF, profile);
                let out = run_child(std::path::Path::new(&exe), &["worker", "c11"], &json!({"text": text}).to_string(), std::time::Duration::from_secs(60));
                st.add_extra("child_processes", 1);
                let case = json!({"canonical": p, "kind": "ws", "whitespace_run_length": n, "profile": profile});
                match out.end {
                    ChildEnd::Exit(0) => {
                        let got = out.stdout.trim();
                        if got != want {
                            return Err(Failure::new("ws:long-run:changes-tree", format!("{:?} with a run of {} whitespace characters ({} build) parsed to {} instead of {}", p, n, profile, got, want), case));
                        }
                    }
                    other => {
                        return Err(Failure::new(
                            "ws:long-run:abort",
                            format!("{:?} with a run of {} whitespace characters at a token boundary ({} build): the process ended with {:?}; stderr: {}", p, n, profile, other, out.stderr.lines().last().unwrap_or("")),
                            case,
                        ))
                    }
                }
            }
        }
    }
    Ok(())
}

fn fixed(env: &Env, st: &mut Stats) -> CaseResult {
    long_runs(env, st)?;
    if env.shard != 0 {
        return Ok(());
    }
    // every ordered pair of token classes with each single whitespace character between them
    let samples: [(&str, &str); 10] = [
        ("a", "ref"), ("1", "num"), ("'s'", "str"), ("true", "bool"), ("f", "func"), ("+", "sym"), ("in", "word"), ("(", "open"), (")", "close"), ("++", "post"),
    ];
    let _ = samples;
    let programs = [
        "f ( a , b )", "a + b", "a in [ a ]", "x <<= 1", "a ? b : c", "{ a : b , c : d }", "[ 1 , 2 , ]", "- a ++", "a not in b", "a ; b", "not a", "AND [ true , false ]",
        "'x y' beginWith 'x'", "a >= b", "a != b", "f ( )", "f ( g ( 1 ) )", "a endWith b", "1.5 * 2", "a -= - b",
    ];
    let tab = OpTable::builtin();
    for p in programs {
        let want = match parse_sexp(p) {
            Ok(Ok(s)) => s,
            _ => continue,
        };
        let (toks, _) = lex(p, &tab);
        for w in WS {
            for w2 in ["", " ", "\n\t"] {
                st.eval();
                let seps = vec![format!("{}{}", w, w2); toks.len().saturating_sub(1)];
                let variant = render(&toks, &seps, "", "");
                compare("ws", &variant, &want, p)?;
                let variant2 = render(&toks, &seps, w, w);
                compare("ws", &variant2, &want, p)?;
            }
        }
    }
    Ok(())
}

fn replay(case: &J, st: &mut Stats, _env: &Env) -> CaseResult {
    st.eval();
    let canonical = case["canonical"].as_str().unwrap_or("");
    let variant = case["variant"].as_str().unwrap_or("");
    let want = match parse_sexp(canonical) {
        Ok(Ok(s)) => s,
        _ => return Ok(()),
    };
    compare(case["kind"].as_str().unwrap_or("ws"), variant, &want, canonical)
}
