//! C11 — whitespace and redundant parentheses never change the parse.
use crate::eng::parse_sexp;
use crate::gen_syntax::{gen_program_x, join, SynCfg};
use crate::runner::*;
use crate::src::Src;
use crate::syntax::{lex, parse_tokens, OpTable, Tok, TK};
use serde_json::{json, Value as J};

pub static PROP: Prop = Prop {
    id: "C11",
    rule: "cases: a well-formed program from the flat generator (all constructs; names are never operator words; strings contain blanks, tabs, newlines, operator and delimiter characters) is rendered three ways: canonical (one blank between tokens), `original` (each boundary empty where gluing is lexically safe, or a random string over {space, tab, CR, LF} of length 1-3) and `transformed` (every empty boundary gets a random whitespace string of length 0-3, every non-empty one is replaced by another non-empty string; leading/trailing whitespace added); whitespace runs of 10^3, 2*10^4 and 2*10^5 (thorough 2*10^6) characters at one boundary are parsed in dev and release child processes; additionally 1-2 complete subexpressions (token spans from the reference parser, any node kind except the statement list) are wrapped in 1-3 pairs of parentheses. One case in 64 is generated over, and parsed in a fresh child process with, 13 user-registered operators (symbolic and word operators of every kind; `---`, `+++` and `%%` are registered in two or three positions under one spelling), and a fixed table of 15 such programs is laid out with every whitespace character at every boundary. One case in 40 first parses a rejected program with groups left open (state must not carry over). Oracle (metamorphic): all accepted renderings parse to the same AST, string payloads byte-identical. Non-trivial: >= 5 tokens and the transformation touches >= 2 boundaries of different token-class pairs, or wraps a non-leaf node; distinct by (set of class pairs touched, wrapped node kinds).",
    assumptions: &[
        "token boundaries come from the generator; a boundary is left empty only if the reference tokenizer splits the glued text into exactly the generated tokens",
        "programs whose canonical rendering the engine rejects, or parses differently from the reference parser (then subexpression spans are unknown), are excluded and counted; C02 reports those",
    ],
    budget,
    setup: noop_setup,
    case,
    fixed,
    replay: Some(replay),
    breadcrumb: false,
    fuzz: &[Fuzz { target: "choice", choice: true, runs: 300000, max_len: 1040 }],
};

fn budget(t: Tier) -> Budget {
    Budget {
        cases: t.pick(1_500_000, 20_000_000),
        max_len: 260,
        shards: 16,
        dual_profile: false,
    }
}

const WS: [&str; 4] = [" ", "\t", "\r", "\n"];

fn gen_ws(src: &mut Src, min: usize) -> String {
    let n = min + src.pick(4 - min);
    (0..n).map(|_| *src.choose(&WS)).collect()
}

fn class(t: &Tok) -> &'static str {
    match t.kind {
        TK::Op => {
            if t.text.chars().next().map(|c| crate::syntax::SPECIAL.contains(c)).unwrap_or(false) {
                "sym"
            } else {
                "word"
            }
        }
        TK::Delim => match t.text.as_str() {
            "(" | "[" | "{" => "open",
            _ => "close",
        },
        k => k.name(),
    }
}

fn same_tokens(a: &[Tok], b: &[Tok]) -> bool {
    a.len() == b.len() && a.iter().zip(b).all(|(x, y)| x.kind == y.kind && x.text == y.text)
}

fn render(toks: &[Tok], seps: &[String], lead: &str, trail: &str) -> String {
    let mut s = String::from(lead);
    for (i, t) in toks.iter().enumerate() {
        if i > 0 {
            s.push_str(&seps[i - 1]);
        }
        s.push_str(&t.text);
    }
    s.push_str(trail);
    s
}

fn compare(label: &str, text: &str, want: &str, canonical: &str) -> CaseResult {
    compare_parsed(label, text, want, canonical, parse_sexp(text), false)
}

/// operators registered in the child of the `registered` scenario: spellings registered in two or
/// three positions at once, symbolic and word operators of every kind
pub const REGS: [(&str, &str, i64, bool); 13] = [
    ("postfix", "---", 0, false),
    ("infix", "---", 100, false),
    ("prefix", "+++", 0, false),
    ("infix", "+++", 115, false),
    ("postfix", "!!", 0, false),
    ("infix", "~>", 30, true),
    ("infix", "@@", 65, false),
    ("infix", "within", 200, false),
    ("postfix", "is_set", 0, false),
    ("prefix", "neg", 0, false),
    ("infix", "%%", 120, true),
    ("prefix", "%%", 0, false),
    ("postfix", "%%", 0, false),
];

/// the variant closes a parenthesis directly after a postfix operator and in front of a spelling
/// that is registered both as postfix and as infix operator
fn closes_postfix_before_dual(canonical: &str, variant: &str) -> bool {
    let tab = registered_table();
    let (c, _) = lex(canonical, &tab);
    let (v, _) = lex(variant, &tab);
    let mut j = 0;
    let mut inserted_close_after: Vec<usize> = vec![];
    for t in &v {
        if j < c.len() && c[j].kind == t.kind && c[j].text == t.text {
            j += 1;
        } else if t.is_delim(")") && j > 0 {
            inserted_close_after.push(j - 1);
        }
    }
    inserted_close_after.iter().any(|&i| {
        c[i].kind == TK::Op
            && tab.postfix.contains(&c[i].text)
            && c.get(i + 1).map(|n| n.kind == TK::Op && tab.postfix.contains(&n.text) && tab.infix.contains_key(&n.text)).unwrap_or(false)
    })
}

fn compare_parsed(label: &str, text: &str, want: &str, canonical: &str, parsed: crate::eng::Guarded<String>, registered: bool) -> CaseResult {
    let mut case = json!({"canonical": canonical, "variant": text, "kind": label});
    let label = if registered {
        case["registered"] = json!(true);
        format!("registered-ops:{}", label)
    } else {
        label.to_string()
    };
    // known engine behaviour, see KNOWN_FINDINGS: an operand takes at most one postfix operator,
    // so a spelling registered as postfix AND infix is read as infix after `a ++` but as postfix
    // after `( a ++ )`
    let label = if registered && label.ends_with("paren") && closes_postfix_before_dual(canonical, text) {
        format!("{}:postfix-operand-before-postfix-and-infix-spelling", label)
    } else {
        label
    };
    let label = label.as_str();
    match parsed {
        Ok(Ok(got)) if got == want => Ok(()),
        Ok(Ok(got)) => Err(Failure::new(
            format!("{}:changes-tree", label),
            format!("canonical {:?}\n    variant   {:?}\n    tree of canonical: {}\n    tree of variant  : {}", canonical, text, want, got),
            case,
        )),
        Ok(Err(e)) => Err(Failure::new(
            format!("{}:rejected", label),
            format!("canonical {:?} is accepted but the variant {:?} is rejected: {}", canonical, text, e),
            case,
        )),
        Err(p) => Err(Failure::new(format!("{}:panic", label), format!("{:?}: {}", text, p), case)),
    }
}

fn registered_table() -> OpTable {
    let mut tab = OpTable::builtin();
    for (kind, name, prec, right) in REGS {
        match kind {
            "infix" => {
                tab.infix.insert(name.to_string(), (prec, right));
            }
            "prefix" => {
                tab.prefix.insert(name.to_string());
            }
            _ => {
                tab.postfix.insert(name.to_string());
            }
        }
    }
    tab
}

/// parses the texts in a fresh child process in which REGS are registered
fn parse_registered(texts: &[&str], env: &Env, st: &mut Stats) -> Result<Vec<crate::eng::Guarded<String>>, Failure> {
    let scenario = json!({"texts": texts});
    let out = run_child(&env.exe, &["worker", "c11r"], &scenario.to_string(), std::time::Duration::from_secs(60));
    st.add_extra("child_processes", 1);
    let doc: J = match (&out.end, serde_json::from_str::<J>(&out.stdout)) {
        (ChildEnd::Exit(0), Ok(d)) => d,
        _ => return Err(Failure::new("registered-ops:child", format!("child ended with {:?}; stderr: {}", out.end, out.stderr), scenario)),
    };
    Ok((0..texts.len())
        .map(|i| {
            let r = &doc[i];
            if let Some(s) = r["ok"].as_str() {
                Ok(Ok(s.to_string()))
            } else if let Some(e) = r["err"].as_str() {
                Ok(Err(e.to_string()))
            } else {
                Err(r["panic"].as_str().unwrap_or("?").to_string())
            }
        })
        .collect())
}

pub fn worker_registered() -> i32 {
    use std::io::Read;
    install_panic_hook();
    let mut s = String::new();
    std::io::stdin().read_to_string(&mut s).ok();
    let doc: J = serde_json::from_str(&s).unwrap_or(json!({}));
    for (i, (kind, name, prec, right)) in REGS.iter().enumerate() {
        crate::props::register_op(&json!({"kind": kind, "name": name, "prec": prec, "right": right}), i as i64);
    }
    let out: Vec<J> = doc["texts"]
        .as_array()
        .cloned()
        .unwrap_or_default()
        .iter()
        .map(|t| match parse_sexp(t.as_str().unwrap_or("")) {
            Ok(Ok(x)) => json!({"ok": x}),
            Ok(Err(e)) => json!({"err": e}),
            Err(p) => json!({"panic": p}),
        })
        .collect();
    println!("{}", J::Array(out));
    0
}

fn case(src: &mut Src, st: &mut Stats, env: &Env) -> CaseResult {
    st.eval();
    // one case in 64 runs against a process with user-registered operators (see REGS)
    let registered = src.pick(64) == 63;
    if !registered && src.pick(40) == 0 {
        // an earlier, rejected input with groups left open must not influence later parses
        let junk = format!("{}a + ", ["(", "[", "f(", "{1:"][src.pick(4)].repeat(1 + src.pick(12)));
        let _ = parse_sexp(&junk);
        st.hist("rejected-program-parsed-first");
    }
    let tab = if registered { registered_table() } else { OpTable::builtin() };
    let mut cfg = SynCfg::new(&tab);
    if registered {
        st.hist("registered-operators");
        // the registered spellings are used as often as all built-in ones together
        let n = cfg.infix.len();
        for i in 0..n {
            let (_, name, _, _) = REGS.iter().filter(|r| r.0 == "infix").nth(i % 6).unwrap();
            cfg.infix.push(name.to_string());
        }
        for r in REGS.iter().filter(|r| r.0 == "prefix") {
            cfg.prefix.push(r.1.to_string());
            cfg.prefix.push(r.1.to_string());
        }
        for r in REGS.iter().filter(|r| r.0 == "postfix") {
            cfg.postfix.push(r.1.to_string());
        }
        cfg.max_operands = 8;
    }
    let (toks, omitted_semi) = gen_program_x(src, &cfg);
    let canonical = join(&toks);
    let (tree, spans) = match parse_tokens(&toks, &tab) {
        Ok(x) => x,
        // a spelling registered in several positions may leave the reference parser without a
        // strict reading; the whitespace relation needs none
        Err(_) if registered => (crate::model::R::Stmts(vec![]), vec![]),
        Err(e) => return Err(Failure::new("harness-bug:generator", format!("{} ({})", canonical, e), json!({"canonical": canonical}))),
    };
    let want = if registered {
        match parse_registered(&[&canonical], env, st)?.pop() {
            Some(Ok(Ok(s))) => s,
            Some(Ok(Err(_))) => {
                st.exclude("canonical-rejected");
                return Ok(());
            }
            Some(Err(p)) => return Err(Failure::new("registered-ops:ws:panic", format!("{:?}: {}", canonical, p), json!({"canonical": canonical, "registered": true}))),
            None => return Ok(()),
        }
    } else {
        match parse_sexp(&canonical) {
            Ok(Ok(s)) => s,
            Ok(Err(_)) => {
                st.exclude("canonical-rejected");
                return Ok(());
            }
            Err(p) => return Err(Failure::new("ws:panic", format!("{:?}: {}", canonical, p), json!({"canonical": canonical}))),
        }
    };

    // --- whitespace ---
    let n = toks.len();
    let mut seps: Vec<String> = Vec::with_capacity(n.saturating_sub(1));
    for i in 1..n {
        let want_empty = src.chance(1, 2);
        let mut sep = gen_ws(src, 1);
        if want_empty {
            // glue only when the pair still splits into exactly these two tokens (the
            // look-ahead of a name needs the token after it, so include one more)
            let hi = (i + 2).min(n);
            let mut glued = format!("{}{}", toks[i - 1].text, toks[i].text);
            for t in &toks[i + 1..hi] {
                glued.push(' ');
                glued.push_str(&t.text);
            }
            let (lx, e) = lex(&glued, &tab);
            if e.is_none() && same_tokens(&lx, &toks[i - 1..hi]) {
                sep = String::new();
            }
        }
        seps.push(sep);
    }
    let mut original = render(&toks, &seps, "", "");
    {
        let (lx, e) = lex(&original, &tab);
        if e.is_some() || !same_tokens(&lx, &toks) {
            st.exclude("gluing-fallback");
            seps = vec![" ".to_string(); n.saturating_sub(1)];
            original = canonical.clone();
        }
    }
    let mut touched = std::collections::BTreeSet::new();
    let mut seps2 = Vec::with_capacity(seps.len());
    for (i, s) in seps.iter().enumerate() {
        let new = if s.is_empty() { gen_ws(src, 0) } else { gen_ws(src, 1) };
        if &new != s {
            touched.insert(format!("{}|{}", class(&toks[i]), class(&toks[i + 1])));
        }
        seps2.push(new);
    }
    let lead = gen_ws(src, 0);
    let trail = gen_ws(src, 0);
    let transformed = render(&toks, &seps2, &lead, &trail);
    for t in &touched {
        st.hist(&format!("ws:{}", t));
    }

    // --- parentheses (only when the engine's tree is the reference tree: spans are then known) ---
    let mut wrapped_kinds = vec![];
    let mut wrapped_text = None;
    {
        // operator-level spans are only known when the engine's tree is the reference tree;
        // atoms and bracketed constructs are complete subexpressions under any operator table
        let same = tree.sexp() == want;
        if !same {
            st.exclude("operator-spans-skipped:engine-tree-differs-from-reference");
        }
        // with an omitted `;` a wrapped statement start that follows a name would read as a call
        // (`a (b)`); after a literal, an operator or a closing delimiter it still starts a statement
        let after_name = |s: &crate::syntax::Span| omitted_semi && s.start > 0 && matches!(toks[s.start - 1].kind, TK::Ref | TK::Func);
        let cands: Vec<&crate::syntax::Span> = spans
            .iter()
            .filter(|s| s.kind != "stmts" && s.end > s.start && (same || matches!(s.kind, "num" | "str" | "bool" | "ref" | "call" | "list" | "map" | "paren")))
            .filter(|s| !after_name(s))
            .collect();
        if omitted_semi {
            st.hist("paren-wrap-with-omitted-semicolon");
        }
        if !cands.is_empty() {
            let mut w = toks.clone();
            let k = 1 + src.pick(2);
            // wrap from the right so that earlier indices stay valid; nested or disjoint spans only
            let mut picks: Vec<(usize, usize, usize, &'static str)> = vec![];
            for _ in 0..k {
                let s = cands[src.pick(cands.len())];
                let mult = 1 + src.pick(3);
                if picks.iter().all(|p| (s.end <= p.0 || s.start >= p.1) || (s.start <= p.0 && s.end >= p.1) || (s.start >= p.0 && s.end <= p.1)) {
                    picks.push((s.start, s.end, mult, s.kind));
                }
            }
            // apply: insert closers first (higher index), then openers
            let mut ins: Vec<(usize, bool, usize)> = vec![]; // (position, is_open, order)
            for (j, p) in picks.iter().enumerate() {
                for _ in 0..p.2 {
                    ins.push((p.1, false, j));
                    ins.push((p.0, true, j));
                }
                wrapped_kinds.push(p.3);
                st.hist(&format!("paren:{}", p.3));
            }
            // applied from the highest position down; at one position openers are inserted first,
            // so that the closers of a preceding span end up in front of them
            ins.sort_by(|a, b| b.0.cmp(&a.0).then(b.1.cmp(&a.1)));
            for (pos, open, _) in ins {
                w.insert(pos, Tok::new(TK::Delim, if open { "(" } else { ")" }));
            }
            wrapped_text = Some(join(&w));
        }
    }

    let nontrivial = n >= 5 && (touched.len() >= 2 || wrapped_kinds.iter().any(|k| !matches!(*k, "num" | "str" | "bool" | "ref")));
    if nontrivial {
        st.nontrivial(&format!("{:?}|{:?}", touched, wrapped_kinds));
    }
    st.sample(|| json!({"canonical": canonical, "original": original, "transformed": transformed, "wrapped": wrapped_text, "registered_operators": registered}));
    if registered {
        let mut texts: Vec<&str> = vec![&original, &transformed];
        if let Some(w) = &wrapped_text {
            texts.push(w);
        }
        let parsed = parse_registered(&texts, env, st)?;
        for (i, p) in parsed.into_iter().enumerate() {
            compare_parsed(if i == 2 { "paren" } else { "ws" }, texts[i], &want, &canonical, p, true)?;
        }
        return Ok(());
    }
    compare("ws", &original, &want, &canonical)?;
    compare("ws", &transformed, &want, &canonical)?;
    if let Some(w) = &wrapped_text {
        compare("paren", w, &want, &canonical)?;
    }
    Ok(())
}

/// child: {"text": ...} -> the S-expression of the parsed program, or ERR
pub fn worker() -> i32 {
    use std::io::Read;
    install_panic_hook();
    let mut s = String::new();
    std::io::stdin().read_to_string(&mut s).ok();
    let doc: J = serde_json::from_str(&s).unwrap_or(json!({}));
    match parse_sexp(doc["text"].as_str().unwrap_or("")) {
        Ok(Ok(x)) => println!("{}", x),
        Ok(Err(e)) => println!("ERR {}", e),
        Err(p) => println!("PANIC {}", p),
    }
    0
}

/// very long whitespace runs at one or all token boundaries, in the dev and the release build
fn long_runs(env: &Env, st: &mut Stats) -> CaseResult {
    let tab = OpTable::builtin();
    let programs = ["a + b", "f ( 1 , [ 2 ] )", "x = 'p q' ; x"];
    let lens: Vec<usize> = vec![1000, 20_000, env.tier.pick(200_000, 2_000_000)];
    let mut i = 0u64;
    for p in programs {
        let want = match parse_sexp(p) {
            Ok(Ok(s)) => s,
            _ => continue,
        };
        let (toks, _) = lex(p, &tab);
        for n in &lens {
            for profile in ["release", "debug"] {
                i += 1;
                if !env.mine(i) {
                    continue;
                }
                st.eval();
                st.hist(&format!("long-whitespace-run:{}", profile));
                st.nontrivial(&format!("long:{}:{}:{}", p, n, profile));
                let run: String = " \t\r\n".repeat(n / 4);
                let seps: Vec<String> = (0..toks.len().saturating_sub(1)).map(|k| if k == 0 { run.clone() } else { " ".to_string() }).collect();
                let text = render(&toks, &seps, &run, "");
                let exe = format!("{}/out/target/{}/vh", VERIF, profile);
                let out = run_child(std::path::Path::new(&exe), &["worker", "c11"], &json!({"text": text}).to_string(), std::time::Duration::from_secs(60));
                st.add_extra("child_processes", 1);
                let case = json!({"canonical": p, "kind": "ws", "whitespace_run_length": n, "profile": profile});
                match out.end {
                    ChildEnd::Exit(0) => {
                        let got = out.stdout.trim();
                        if got != want {
                            return Err(Failure::new("ws:long-run:changes-tree", format!("{:?} with a run of {} whitespace characters ({} build) parsed to {} instead of {}", p, n, profile, got, want), case));
                        }
                    }
                    other => {
                        return Err(Failure::new(
                            "ws:long-run:abort",
                            format!("{:?} with a run of {} whitespace characters at a token boundary ({} build): the process ended with {:?}; stderr: {}", p, n, profile, other, out.stderr.lines().last().unwrap_or("")),
                            case,
                        ))
                    }
                }
            }
        }
    }
    Ok(())
}

fn fixed(env: &Env, st: &mut Stats) -> CaseResult {
    long_runs(env, st)?;
    if env.shard != 0 {
        return Ok(());
    }
    // every ordered pair of token classes with each single whitespace character between them
    let samples: [(&str, &str); 10] = [
        ("a", "ref"), ("1", "num"), ("'s'", "str"), ("true", "bool"), ("f", "func"), ("+", "sym"), ("in", "word"), ("(", "open"), (")", "close"), ("++", "post"),
    ];
    let _ = samples;
    let programs = [
        "f ( a , b )", "a + b", "a in [ a ]", "x <<= 1", "a ? b : c", "{ a : b , c : d }", "[ 1 , 2 , ]", "- a ++", "a not in b", "a ; b", "not a", "AND [ true , false ]",
        "'x y' beginWith 'x'", "a >= b", "a != b", "f ( )", "f ( g ( 1 ) )", "a endWith b", "1.5 * 2", "a -= - b",
    ];
    let tab = OpTable::builtin();
    for p in programs {
        let want = match parse_sexp(p) {
            Ok(Ok(s)) => s,
            _ => continue,
        };
        let (toks, _) = lex(p, &tab);
        for w in WS {
            for w2 in ["", " ", "\n\t"] {
                st.eval();
                let seps = vec![format!("{}{}", w, w2); toks.len().saturating_sub(1)];
                let variant = render(&toks, &seps, "", "");
                compare("ws", &variant, &want, p)?;
                let variant2 = render(&toks, &seps, w, w);
                compare("ws", &variant2, &want, p)?;
            }
        }
    }
    // the same table for programs over user-registered operators, some registered in two or
    // three positions under one spelling
    let rtab = registered_table();
    let rprograms = [
        "x --- - 1", "7 --- y", "a --- b --- c", "a +++ b", "+++ a +++ +++ b", "a %% %% b", "%% a %% b %%", "a !! ~> b !!", "a is_set within [ a ]", "neg a @@ neg b",
        "( a --- ) --- 2", "f ( a --- , b ) --- 1", "a --- ; b", "a ~> b ~> c", "a within b is_set",
    ];
    for p in rprograms {
        let (toks, _) = lex(p, &rtab);
        let mut variants: Vec<String> = vec![p.to_string()];
        for w in WS {
            for w2 in ["", " ", "\n\t"] {
                let seps = vec![format!("{}{}", w, w2); toks.len().saturating_sub(1)];
                variants.push(render(&toks, &seps, "", ""));
                variants.push(render(&toks, &seps, w, w));
                // only the boundary before / after the second token is widened
                let mut one = vec![" ".to_string(); toks.len().saturating_sub(1)];
                if one.len() >= 2 {
                    one[0] = format!(" {}{}", w, w2);
                    variants.push(render(&toks, &one, "", ""));
                    one[0] = " ".to_string();
                    one[1] = format!(" {}{}", w, w2);
                    variants.push(render(&toks, &one, "", ""));
                }
            }
        }
        let refs: Vec<&str> = variants.iter().map(|s| s.as_str()).collect();
        let mut parsed = parse_registered(&refs, env, st)?.into_iter();
        let want = match parsed.next() {
            Some(Ok(Ok(s))) => s,
            _ => continue,
        };
        st.hist("registered-operators:fixed-table");
        st.nontrivial(&format!("registered:{}", p));
        for (i, r) in parsed.enumerate() {
            st.eval();
            compare_parsed("ws", &variants[i + 1], &want, p, r, true)?;
        }
    }
    Ok(())
}

fn replay(case: &J, st: &mut Stats, env: &Env) -> CaseResult {
    st.eval();
    let canonical = case["canonical"].as_str().unwrap_or("");
    let variant = case["variant"].as_str().unwrap_or("");
    if case["registered"].as_bool() == Some(true) {
        let mut parsed = parse_registered(&[canonical, variant], env, st)?;
        let v = parsed.pop().unwrap();
        let want = match parsed.pop() {
            Some(Ok(Ok(s))) => s,
            _ => return Ok(()),
        };
        return compare_parsed(case["kind"].as_str().unwrap_or("ws"), variant, &want, canonical, v, true);
    }
    let want = match parse_sexp(canonical) {
        Ok(Ok(s)) => s,
        _ => return Ok(()),
    };
    compare(case["kind"].as_str().unwrap_or("ws"), variant, &want, canonical)
}
