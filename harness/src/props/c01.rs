//! C01 — parsing is total: Ok or Err, never a panic, abort or hang; ASTs render.
use crate::gen_soup::{gen_soup, CLASSES};
use crate::runner::*;
use crate::src::Src;
use crate::syntax::OpTable;
use expression_engine::{execute, parse_expression, Context};
use serde_json::{json, Value as J};
use std::io::Write;
use std::time::Duration;

pub static PROP: Prop = Prop {
    id: "C01",
    rule: "cases: (b) token soup: 0-60 fragments from 14 character/token classes (operator characters and spellings, delimiters, digit runs with . e E + -, balanced and unbalanced quotes, ; , whitespace, names, keywords, 2/3/4-byte scalars, other first characters, odd whitespace), glued without separator 3/4 of the time, plus corrupted valid programs, plus the operator x edge-palette programs of C04 (binary, compound, prefix/postfix and min/max/sum/mul forms), all in the dev AND the release build (paired shards); one case in 48 draws 2-6 user operators (infix, prefix, postfix; symbolic and word spellings, spellings starting with a 2-, 3- or 4-byte character, some registered in several positions, `+` and `in` overridden; precedences 0, 1, 2, 20, 21, 110, 200, 10^9, 2^30, i32::MAX, -1, -2^30, i32::MIN; both associativities), registers them in a fresh child process and runs eight inputs there: chains of the registered operators followed by operator-like tokens of every kind, well-formed and damaged programs over the extended table, soup over the extended table; each input goes through parse_expression, execute (empty context) and, for every Ok(ast), expr(), describe() and drop, under catch_unwind; (c) depth classes: for each recursive construct (paren, bracket, brace-map, call, prefix -, prefix not, conditional then-nest and else-nest, left infix chain, right assignment chain, identifier run, statements, a whitespace run at one token boundary, unclosed openers, prefix over parenthesised infix, postfix over parens, list-in-map-in-call mix, `not OP` chain) and each depth of a ladder (1..48 dense, 64, 100, 300, 1000, 3000, 10000; 10^5 and 10^6 for the iteratively handled constructs [thorough: 2000, 5000, 30000, 100000 for all]) one child process per (construct, depth, build profile dev/release) runs parse -> expr -> describe -> exec -> drop on the main thread (8 MiB stack) under a 30 s watchdog. Context functions that use the context they are evaluated in (every bare-name / call position of C14, two actions) run through C14's scenario runner. Any panic, any abort (signal) and any reproducible watchdog expiry is a failure; depth <= 1000 must never abort. Non-trivial: the input contains a non-ASCII scalar, or an unterminated/mismatched construct, or nesting/chain depth >= 8; distinct by input hash (soup) / (construct, depth, profile) (ladder).",
    assumptions: &[
        "termination is decided by a 30 s watchdog in a child process (normal run time is milliseconds); an expiry must reproduce twice to count, otherwise the run is inconclusive (exit 2)",
        "stack exhaustion is judged on the default 8 MiB main-thread stack in both build profiles",
    ],
    budget,
    setup: noop_setup,
    case,
    fixed,
    replay: Some(replay),
    breadcrumb: true,
    fuzz: &[Fuzz { target: "totality", choice: false, runs: 1500000, max_len: 400 }],
};

fn budget(t: Tier) -> Budget {
    Budget {
        cases: t.pick(600_000, 8_000_000),
        max_len: 260,
        shards: 16,
        // soup and edge programs run in the dev build (odd shards) as well as in release
        dual_profile: true,
    }
}

/// parse + execute + render of one input, all under catch_unwind
pub fn total_check(text: &str) -> Result<&'static str, (String, String)> {
    // returns the stage reached, or (stage, panic)
    let r = guard(|| match parse_expression(text) {
        Ok(ast) => {
            let _ = ast.expr();
            let _ = ast.describe();
            "accepted"
        }
        Err(_) => "rejected",
    });
    let stage = match r {
        Ok(s) => s,
        Err(p) => return Err(("parse/expr/describe".into(), p)),
    };
    if let Err(p) = guard(|| {
        let _ = execute(text, Context::new());
    }) {
        return Err(("execute".into(), p));
    }
    Ok(stage)
}

fn unbalanced(text: &str) -> bool {
    let mut depth = 0i32;
    let mut q: Option<char> = None;
    for c in text.chars() {
        match q {
            Some(x) => {
                if c == x {
                    q = None;
                }
            }
            None => match c {
                '"' | '\'' => q = Some(c),
                '(' | '[' | '{' => depth += 1,
                ')' | ']' | '}' => {
                    depth -= 1;
                    if depth < 0 {
                        return true;
                    }
                }
                _ => {}
            },
        }
    }
    depth != 0 || q.is_some()
}

fn max_nesting(text: &str) -> usize {
    let mut d = 0usize;
    let mut m = 0usize;
    for c in text.chars() {
        match c {
            '(' | '[' | '{' => {
                d += 1;
                m = m.max(d);
            }
            ')' | ']' | '}' => d = d.saturating_sub(1),
            _ => {}
        }
    }
    m
}

fn check_text(text: &str, st: &mut Stats) -> CaseResult {
    if !text.is_ascii() || unbalanced(text) || max_nesting(text) >= 8 {
        st.nontrivial(text);
    }
    match total_check(text) {
        Ok(stage) => {
            st.hist(stage);
            Ok(())
        }
        Err((stage, p)) => Err(Failure::new(
            format!("panic:{}", panic_file(&p)),
            format!("{:?} panicked in {}: {}", text, stage, p),
            json!({"input": text}),
        )),
    }
}

/// user operators of the registered-operator scenario: (kind, spelling)
const REG_POOL: [(&str, &str); 22] = [
    ("infix", "otherwise"), ("infix", "~>"), ("infix", "---"), ("infix", "%%"), ("infix", "+"), ("infix", "in"), ("infix", "vh_o"), ("infix", "@@"),
    ("prefix", "neg"), ("prefix", "+++"), ("prefix", "%%"),
    ("postfix", "!!"), ("postfix", "---"), ("postfix", "is_set"),
    // spellings that start with a 2-, 3- or 4-byte character, in every position
    ("infix", "×"), ("infix", "大于等于"), ("prefix", "√"), ("prefix", "¬"), ("postfix", "°"), ("postfix", "‰"), ("postfix", "𝄞"), ("infix", "é="),
];
/// register_infix_op accepts every i32 (C08 documents the positive ones up to 10^9; an operator
/// with a negative precedence never binds, but registering and meeting one must not panic either)
const REG_PRECS: [i64; 13] = [0, 1, 2, 20, 21, 110, 200, 1_000_000_000, 1 << 30, i32::MAX as i64, -1, -(1 << 30), i32::MIN as i64];

/// child: {"ops":[{"kind","name","prec","right"}], "texts":[..]} -> per text the stage reached or the panic
pub fn worker_registered() -> i32 {
    use std::io::Read;
    install_panic_hook();
    let mut s = String::new();
    std::io::stdin().read_to_string(&mut s).ok();
    let doc: J = serde_json::from_str(&s).unwrap_or(json!({}));
    for (i, op) in doc["ops"].as_array().cloned().unwrap_or_default().iter().enumerate() {
        crate::props::register_op(op, i as i64);
    }
    let out: Vec<J> = doc["texts"]
        .as_array()
        .cloned()
        .unwrap_or_default()
        .iter()
        .map(|t| match total_check(t.as_str().unwrap_or("")) {
            Ok(stage) => json!({"stage": stage}),
            Err((stage, p)) => json!({"panic": p, "stage": stage}),
        })
        .collect();
    println!("{}", J::Array(out));
    0
}

fn run_registered(ops: &[J], texts: &[String], env: &Env, st: &mut Stats) -> CaseResult {
    run_registered_in(ops, texts, PROFILE, env, st)
}

fn run_registered_in(ops: &[J], texts: &[String], profile: &str, env: &Env, st: &mut Stats) -> CaseResult {
    let scenario = json!({"ops": ops, "texts": texts, "profile": profile});
    let exe = if profile == PROFILE { env.exe.clone() } else { std::path::PathBuf::from(format!("{}/out/target/{}/vh", VERIF, if profile == "dev" { "debug" } else { "release" })) };
    let out = run_child(&exe, &["worker", "c01r"], &scenario.to_string(), Duration::from_secs(60));
    st.add_extra("child_processes", 1);
    let doc: J = match (&out.end, serde_json::from_str::<J>(&out.stdout)) {
        (ChildEnd::Exit(0), Ok(d)) => d,
        (end, _) => {
            return Err(Failure::new(
                format!("registered-ops:child:{:?}", end).replace(' ', ""),
                format!("with the registered operators {} the process parsing {:?} ended with {:?}; stderr: {}", J::Array(ops.to_vec()), texts, end, out.stderr.lines().last().unwrap_or("")),
                scenario,
            ))
        }
    };
    for (i, t) in texts.iter().enumerate() {
        st.eval();
        if let Some(p) = doc[i]["panic"].as_str() {
            return Err(Failure::new(
                format!("registered-ops:panic:{}", panic_file(p)),
                format!("with the registered operators {} the input {:?} panicked in {}: {}", J::Array(ops.to_vec()), t, doc[i]["stage"].as_str().unwrap_or("?"), p),
                json!({"ops": ops, "texts": [t], "profile": profile}),
            ));
        }
        st.hist(&format!("registered-ops:{}", doc[i]["stage"].as_str().unwrap_or("?")));
    }
    Ok(())
}

/// inputs over user-registered operators (any non-negative precedence, both associativities,
/// spellings registered in several positions, built-ins overridden), parsed in a fresh process
fn case_registered(src: &mut Src, st: &mut Stats, env: &Env) -> CaseResult {
    let mut tab = OpTable::builtin();
    let nops = 2 + src.pick(5);
    let mut ops: Vec<J> = vec![];
    let mut infix: Vec<String> = vec![];
    let mut shape = vec![];
    for _ in 0..nops {
        let (kind, name) = *src.choose(&REG_POOL);
        let prec = *src.choose(&REG_PRECS);
        let right = src.chance(1, 2);
        ops.push(json!({"kind": kind, "name": name, "prec": prec, "right": right}));
        match kind {
            "infix" => {
                tab.infix.insert(name.to_string(), (prec, right));
                infix.push(name.to_string());
                shape.push(format!("i{}{}", prec, if right { "R" } else { "L" }));
            }
            "prefix" => {
                tab.prefix.insert(name.to_string());
                shape.push("pre".into());
            }
            _ => {
                tab.postfix.insert(name.to_string());
                shape.push("post".into());
            }
        }
    }
    if infix.is_empty() {
        let prec = *src.choose(&REG_PRECS);
        let right = src.chance(1, 2);
        ops.push(json!({"kind": "infix", "name": "otherwise", "prec": prec, "right": right}));
        tab.infix.insert("otherwise".to_string(), (prec, right));
        infix.push("otherwise".into());
        shape.push(format!("i{}{}", prec, if right { "R" } else { "L" }));
    }
    let mut texts: Vec<String> = vec![];
    // chains of the registered infix operators followed by an operator-like token of any kind
    let tails: Vec<String> = tab.prefix.iter().chain(tab.postfix.iter()).cloned().chain(["?", ":", "not", ",", ";", "="].iter().map(|s| s.to_string())).collect();
    for _ in 0..3 {
        let n = 2 + src.pick(4);
        let mut s = String::new();
        for i in 0..n {
            if i > 0 {
                s.push_str(&format!(" {} ", src.choose(&infix)));
            }
            s.push_str(*src.choose(&["a", "1", "( b )", "f ( 2 )", "[ 3 ]", "'s'", "- c", "d ++"]));
        }
        let ntail = src.pick(3);
        for _ in 0..ntail {
            s.push_str(&format!(" {} ", src.choose(&tails)));
            s.push_str(*src.choose(&["d", "2", "( e )", ""]));
            if src.chance(1, 2) {
                s.push_str(&format!(" {} g", src.choose(&infix)));
            }
        }
        texts.push(s);
    }
    // well-formed programs over the extended table, half of them damaged
    let mut cfg = crate::gen_syntax::SynCfg::new(&tab);
    let n0 = cfg.infix.len();
    for i in 0..n0 {
        cfg.infix.push(infix[i % infix.len()].clone());
    }
    cfg.max_operands = 8;
    for k in 0..3 {
        let mut chars: Vec<char> = crate::gen_syntax::join(&crate::gen_syntax::gen_program(src, &cfg)).chars().collect();
        if k > 0 && !chars.is_empty() {
            let pos = src.pick(chars.len());
            match src.pick(3) {
                0 => {
                    chars.remove(pos);
                }
                1 => chars.truncate(pos),
                _ => chars[pos] = *src.choose(&['é', ' ', '(', ')', '+', '"', '0', 'a']),
            }
        }
        texts.push(chars.into_iter().collect());
    }
    for _ in 0..2 {
        texts.push(gen_soup(src, &tab, 30).text);
    }
    st.hist("registered-operators");
    shape.sort();
    st.nontrivial(&format!("registered:{}", shape.join(",")));
    st.sample(|| json!({"registered_operators": ops, "inputs": texts}));
    run_registered(&ops, &texts, env, st)
}

fn case(src: &mut Src, st: &mut Stats, env: &Env) -> CaseResult {
    st.eval();
    // one case in 48 runs eight inputs in a fresh process with user-registered operators
    if src.pick(48) == 47 {
        return case_registered(src, st, env);
    }
    let tab = OpTable::builtin();
    let mode = src.weighted(&[3, 1]);
    let text = if mode == 0 {
        let soup = gen_soup(src, &tab, 60);
        for (a, b) in &soup.adjacencies {
            st.hist(&format!("adj:{}>{}", CLASSES[*a], CLASSES[*b]));
        }
        soup.text
    } else {
        // a valid program with character-level damage (truncation, multi-byte insertion ...)
        let cfg = crate::gen_syntax::SynCfg::new(&tab);
        let mut chars: Vec<char> = crate::gen_syntax::join(&crate::gen_syntax::gen_program(src, &cfg)).chars().collect();
        let n = 1 + src.pick(4);
        for _ in 0..n {
            let pos = src.pick(chars.len() + 1);
            match src.pick(4) {
                0 if !chars.is_empty() => {
                    chars.remove(pos.min(chars.len() - 1));
                }
                1 => {
                    let ins = *src.choose(&["é", "𝄞", "(", "'", "\"", "[", "{", "?", "e", "+", " ", ")"]);
                    for (k, c) in ins.chars().enumerate() {
                        chars.insert(pos.min(chars.len()) + k, c);
                    }
                }
                2 => chars.truncate(pos),
                _ => {
                    if !chars.is_empty() {
                        let p = pos.min(chars.len() - 1);
                        chars[p] = *src.choose(&['é', ' ', '(', ')', '+', '"', '0', 'a']);
                    }
                }
            }
        }
        st.hist("damaged-program");
        chars.into_iter().collect()
    };
    st.sample(|| json!({"input": text}));
    check_text(&text, st)
}

// ----- depth ladder -----

pub const CONSTRUCTS: [&str; 19] = [
    "paren", "bracket", "brace", "call", "prefix-minus", "prefix-not", "prefix-bang", "cond-then", "cond-else", "left-chain", "right-chain", "names",
    "statements", "whitespace-run", "unclosed", "prefix-over-paren-infix", "postfix-over-paren", "mixed", "not-op-chain",
];

pub fn build(construct: &str, n: usize) -> String {
    let rep = |s: &str, k: usize| s.repeat(k);
    match construct {
        "paren" => format!("{}1{}", rep("(", n), rep(")", n)),
        "bracket" => format!("{}1{}", rep("[", n), rep("]", n)),
        "brace" => format!("{}1{}", rep("{1:", n), rep("}", n)),
        "call" => format!("{}1{}", rep("f(", n), rep(")", n)),
        "prefix-minus" => format!("{}1", rep("- ", n)),
        "prefix-not" => format!("{}true", rep("not ", n)),
        "prefix-bang" => format!("{}true", rep("!", n)),
        "cond-then" => format!("{}1{}", rep("true?", n), rep(":2", n)),
        "cond-else" => format!("{}3", rep("false?1:", n)),
        "left-chain" => format!("{}1", rep("1+", n)),
        "right-chain" => format!("{}1", rep("a=", n)),
        "names" => rep("a ", n),
        "statements" => rep("1;", n),
        // one token boundary with n blanks (all four whitespace characters)
        "whitespace-run" => format!("1{}+ 1", rep(" \t\r\n", n / 4 + 1)),
        "unclosed" => rep("(", n),
        "prefix-over-paren-infix" => format!("{}1{}", rep("-(", n), rep("+1)", n)),
        "postfix-over-paren" => format!("{}1{}", rep("(", n), rep(")++", n)),
        // four nesting levels per repetition, so n/4 repetitions are n levels
        "mixed" => format!("{}1{}", rep("f([{1:(", (n / 4).max(1)), rep(")}])", (n / 4).max(1))),
        "not-op-chain" => format!("1{}", rep(" not in [1] == true", n)),
        _ => String::new(),
    }
}

/// child: runs the stages, printing a marker before each so the parent sees where it died
pub fn worker() -> i32 {
    use std::io::Read;
    // no core dumps: an expected stack overflow must stay cheap
    unsafe {
        let lim = libc::rlimit { rlim_cur: 0, rlim_max: 0 };
        libc::setrlimit(libc::RLIMIT_CORE, &lim);
    }
    let mut s = String::new();
    std::io::stdin().read_to_string(&mut s).ok();
    let doc: J = serde_json::from_str(&s).unwrap_or(json!({}));
    let text = match doc["construct"].as_str() {
        Some(c) => build(c, doc["depth"].as_u64().unwrap_or(1) as usize),
        None => doc["text"].as_str().unwrap_or("").to_string(),
    };
    let mark = |m: &str| {
        let mut o = std::io::stdout();
        let _ = writeln!(o, "{}", m);
        let _ = o.flush();
    };
    install_panic_hook();
    let r = guard(|| {
        mark("stage parse");
        let parsed = parse_expression(&text);
        match parsed {
            Ok(ast) => {
                mark("stage expr");
                let e = ast.expr();
                std::hint::black_box(&e);
                mark("stage describe");
                let d = ast.describe();
                std::hint::black_box(&d);
                mark("stage exec");
                let mut ctx = Context::new();
                let v = ast.exec(&mut ctx);
                std::hint::black_box(&v);
                mark("stage drop");
                drop(ast);
                mark("result accepted");
            }
            Err(_) => mark("result rejected"),
        }
    });
    match r {
        Ok(()) => {
            mark("done");
            0
        }
        Err(p) => {
            mark(&format!("panic {}", p));
            3
        }
    }
}

fn run_depth(construct: &str, depth: usize, profile: &str, env: &Env, st: &mut Stats) -> CaseResult {
    let exe = if profile == "dev" {
        std::path::PathBuf::from(format!("{}/out/target/debug/vh", VERIF))
    } else {
        std::path::PathBuf::from(format!("{}/out/target/release/vh", VERIF))
    };
    let _ = env;
    let scenario = json!({"construct": construct, "depth": depth});
    let case = json!({"construct": construct, "depth": depth, "profile": profile});
    let mut attempts = 0;
    loop {
        attempts += 1;
        let out = run_child(&exe, &["worker", "c01"], &scenario.to_string(), Duration::from_secs(if depth > 1000 { 15 } else { 30 }));
        st.add_extra("child_processes", 1);
        let last_stage = out.stdout.lines().filter(|l| l.starts_with("stage ")).last().map(|l| l[6..].to_string()).unwrap_or_else(|| "start".into());
        let deep = if depth > 1000 { "stack" } else { "stack-shallow" };
        match out.end {
            ChildEnd::Exit(0) => {
                st.hist(&format!("{}:{}", profile, if out.stdout.contains("result accepted") { "accepted" } else { "rejected" }));
                return Ok(());
            }
            ChildEnd::Exit(3) => {
                let p = out.stdout.lines().find(|l| l.starts_with("panic ")).unwrap_or("panic ?").to_string();
                return Err(Failure::new(
                    format!("panic:{}", panic_file(&p[6..])),
                    format!("{} nested {} deep panicked in stage {} ({} build): {}", construct, depth, last_stage, profile, p),
                    case,
                ));
            }
            ChildEnd::Signal(sig) => {
                return Err(Failure::new(
                    format!("{}:{}:{}", deep, construct, last_stage),
                    format!(
                        "{} nested {} deep: the process was killed by signal {} in stage {} ({} build); stderr: {}",
                        construct,
                        depth,
                        sig,
                        last_stage,
                        profile,
                        out.stderr.lines().last().unwrap_or("")
                    ),
                    case,
                ));
            }
            ChildEnd::Timeout if depth > 1000 => {
                // beyond 1000 levels some stages are quadratic (the evaluator clones subtrees);
                // slowness there is recorded, it is not a verdict
                st.hist(&format!("{}:slow-beyond-watchdog:{}", profile, construct));
                return Ok(());
            }
            ChildEnd::Timeout => {
                if attempts < 3 {
                    continue; // must reproduce
                }
                return Err(Failure::new(
                    format!("hang:{}:{}", construct, last_stage),
                    format!("{} nested {} deep did not finish stage {} within 30 s, three times ({} build)", construct, depth, last_stage, profile),
                    case,
                ));
            }
            ChildEnd::Exit(c) => {
                return Err(Failure::new(
                    format!("{}:{}:{}", deep, construct, last_stage),
                    format!("{} nested {} deep: child exited with {} in stage {} ({} build); stderr tail: {}", construct, depth, c, last_stage, profile, out.stderr.lines().last().unwrap_or("")),
                    case,
                ));
            }
        }
    }
}

fn ladder(t: Tier, construct: &str) -> Vec<usize> {
    let mut v: Vec<usize> = (1..=48).collect();
    v.extend([64, 100, 300, 1000, 3000, 10000]);
    // constructs that are handled iteratively are cheap: they go much further already in quick
    if matches!(construct, "names" | "statements" | "whitespace-run") {
        v.extend([100_000, 1_000_000]);
    }
    if t == Tier::Thorough {
        v.extend([2000, 5000, 30000, 100000]);
        v.sort();
        v.dedup();
    }
    v
}

fn fixed(env: &Env, st: &mut Stats) -> CaseResult {
    // golden inputs: every string from the repository's tests and README, and past findings
    if env.shard == 0 {
        for t in [
            "", " ", "+é", "<˱", "1+é", "a=ü", "!é", "2*😀", "[ ", "[234,", " { ", "{2:", "{2", "{2:}", " (", "a(", "a(,)", "a(2,true,", "true ?", "true ? haha :", "2+ ",
            "c = 5+3; c+=10+f; c", "a + 3*2+test()+[1,2,3,'haha']", "2+3*5-2/2+6*(2+4 )-20", "{'haha':2, 1+2:2>3}", "3 not in ['a', false, true, 1+2] || 3>=2", "\"jajd'", "0e.3",
            "1/0", "5%0", "1<<64", "min()", "max()", "79228162514264337593543950335+1", "AND[1>2,true]", "2-- +3", "'a\"b'", "é", "日(", "\u{feff}1", "1\u{0}2",
        ] {
            st.eval();
            check_text(t, st)?;
        }
    }
    // edge-of-domain programs (C04's operator x palette table) in this shard's own build profile
    {
        let (pair, pairs) = (env.shard / 2, (env.of / 2).max(1));
        let mut j = 0u64;
        for op in crate::props::c04::OPS {
            for a in crate::props::c04::PALETTE {
                for b in crate::props::c04::PALETTE {
                    j += 1;
                    if (j % pairs as u64) as usize != pair {
                        continue;
                    }
                    st.eval();
                    st.hist(&format!("edge-program:{}", PROFILE));
                    check_text(&format!("{} {} {}", a, op, b), st)?;
                    check_text(&format!("x = {} ; x {}= {}", a, op, b), st)?;
                }
            }
        }
        for a in crate::props::c04::PALETTE {
            for b in crate::props::c04::PALETTE {
                j += 1;
                if (j % pairs as u64) as usize != pair {
                    continue;
                }
                st.eval();
                for f in ["min", "max", "sum", "mul"] {
                    check_text(&format!("{}({} , {})", f, a, b), st)?;
                    check_text(&format!("{}({} , {} , (- 5))", f, a, b), st)?;
                }
                check_text(&format!("[{} ++ , {} -- , - {} , min() , sum() , {} beginWith {}]", a, a, b, a, b), st)?;
            }
        }
    }
    // "execute ... never fails to terminate" also when the context's own functions use the context
    // they are evaluated in: C14's scenario runner, one child per handler kind
    for (k, kind) in crate::props::c14::KINDS.iter().enumerate() {
        if kind.starts_with("ctx-function") && env.mine(900 + k as u64) {
            st.hist("context-function-uses-its-context");
            for action in ["execute-same-context-read", "lock-context-handle"] {
                crate::props::c14::run_case(&[*kind], action, env, st).map_err(|mut f| {
                    f.detail = format!("(re-entrant context function, replay with ./check C14 --replay) {}", f.detail);
                    f
                })?;
            }
        }
    }
    let mut i = 0u64;
    for c in CONSTRUCTS {
        for d in ladder(env.tier, c) {
            for profile in ["release", "dev"] {
                i += 1;
                if !env.mine(i) {
                    continue;
                }
                st.eval();
                if d >= 8 {
                    st.nontrivial(&format!("{}:{}:{}", c, d, profile));
                }
                let r = run_depth(c, d, profile, env, st);
                if let Err(f) = r {
                    if env.is_known(&f.sig) {
                        *st.known_hits.entry(f.sig.clone()).or_insert(0) += 1;
                    } else {
                        return Err(f);
                    }
                }
            }
        }
    }
    Ok(())
}

fn replay(case: &J, st: &mut Stats, env: &Env) -> CaseResult {
    st.eval();
    if let Some(ops) = case["ops"].as_array() {
        let texts: Vec<String> = case["texts"].as_array().cloned().unwrap_or_default().iter().map(|t| t.as_str().unwrap_or("").to_string()).collect();
        return run_registered_in(ops, &texts, case["profile"].as_str().unwrap_or(PROFILE), env, st);
    }
    if let Some(c) = case["construct"].as_str() {
        let c = CONSTRUCTS.iter().find(|x| **x == c).copied().unwrap_or("paren");
        return run_depth(c, case["depth"].as_u64().unwrap_or(1) as usize, case["profile"].as_str().unwrap_or("release"), env, st);
    }
    check_text(case["input"].as_str().unwrap_or(""), st)
}
