//! C06 — assignments update the context exactly as written.
use crate::gen_sem::*;
use crate::handlers;
use crate::model::{agree, Binding, Ev, Model, R, V};
use crate::props::sem::*;
use crate::runner::*;
use crate::src::Src;
use expression_engine::{execute, parse_expression};
use serde_json::{json, Value as J};
use std::collections::BTreeMap;

pub static PROP: Prop = Prop {
    id: "C06",
    rule: "cases: programs of 1-10 statements over the names v0..v3 (plus names bound to context functions and an unbound name as targets) and an initial context with 0-4 variables of every type and 0-3 constant context functions (in a quarter of the contexts also `boom`, a context function that always fails: a bare `boom` statement, a read of it or an assignment to it stops the program there) (a fifth of the programs draws its numbers from the edge palette; the never-bound names include `sum` and `vh_g0`, which are registered functions): `x = e`, `x op= e` for all 10 compound operators, bare reads, expressions reading variables and containing nested assignments, chained/nested assignments (a = b = e, a = b += 1, x = x = e, x op= ((x = c) == u ? 3 : 4), and the flat chain `a OP1 b OP2 e` for every pair of the eleven assignment operators - chains are written without parentheses, so their right-to-left grouping is the engine's), values of changing type, failing statements at every position (type error, division by zero, unknown function, non-name targets 3 = e, min(1) = e, [a] += e, f() = e and sum() op= e for callable f, calls whose arguments assign: nofn(x = 1), f(f = 3), min(x = 2, \"x\")); empty contexts are built with create_context!(). Each program is run through execute (context handle kept for inspection) and through parse_expression + exec(&mut ctx). Oracle: a model context and the reference evaluator in lock-step: the program's result and, after return, the binding of every name in play must equal the model (after a failing statement: exactly the bindings made before it). Non-trivial: >= 2 assignments to one name, or a compound assignment, or a failing statement that is not the first; distinct by (statement/operator skeleton, outcome class).",
    assumptions: &[
        "`x op= e` is specified as binding x to what `x op e` yields: the model evaluates the target, then e, then op",
        "when the reference outcome is unspecified (rounding, inexact quotient) bindings made from that value are not compared",
    ],
    budget,
    setup: handlers::setup,
    case,
    fixed: noop_fixed,
    replay: Some(replay),
    breadcrumb: false,
    fuzz: &[Fuzz { target: "choice", choice: true, runs: 300000, max_len: 800 }],
};

fn budget(t: Tier) -> Budget {
    Budget {
        cases: t.pick(3_000_000, 40_000_000),
        max_len: 200,
        shards: 16,
        dual_profile: false,
    }
}

fn cfg() -> SemCfg {
    SemCfg {
        max_depth: 3,
        edge: false,
        ill_typed_16: 1,
        observables: false,
        assignments: true,
    }
}

fn names_in_play(sc: &SemCtx) -> Vec<String> {
    let mut v: Vec<String> = VAR_NAMES.iter().map(|s| s.to_string()).collect();
    v.extend(FUNC_NAMES.iter().map(|s| s.to_string()));
    v.extend(UNBOUND.iter().map(|s| s.to_string()));
    v.extend(sc.bindings.keys().cloned());
    v.sort();
    v.dedup();
    v
}

/// compares the engine context (read through `read`) with the model context
pub fn compare_context(model: &BTreeMap<String, Binding>, read: &BTreeMap<String, Option<V>>) -> Result<(), String> {
    for (name, got) in read {
        match (model.get(name), got) {
            (None, None) => {}
            (Some(Binding::Var(m)), Some(g)) => {
                if !(m.eq_value(g) && m.type_name() == g.type_name()) {
                    return Err(format!("{} is bound to {} but should be {}", name, g.key(), m.key()));
                }
            }
            (Some(Binding::Func(..)), Some(V::Str(s))) if s == "<function>" => {}
            (Some(Binding::Func(..)), Some(g)) => return Err(format!("{} should still be bound to its function but is {}", name, g.key())),
            (Some(Binding::Var(m)), None) => return Err(format!("{} is unbound but should be {}", name, m.key())),
            (Some(Binding::Func(..)), None) => return Err(format!("{} lost its function binding", name)),
            (None, Some(g)) => return Err(format!("{} is bound to {} but was never assigned", name, g.key())),
        }
    }
    Ok(())
}

fn stmt_kind(r: &R) -> String {
    match r {
        R::Infix(op, l, _) if crate::model::is_assign(op) => format!("{}{}", if matches!(**l, R::Ref(_)) { "" } else { "!" }, op),
        R::Ref(_) => "read".into(),
        R::Call(..) => "call".into(),
        _ => "expr".into(),
    }
}

fn check(tree: &R, sc: &SemCtx, st: &mut Stats) -> CaseResult {
    let text = tree.render_explicit();
    let stmts = match tree {
        R::Stmts(v) => v.clone(),
        other => vec![other.clone()],
    };
    let mut m = Model {
        ctx: sc.bindings.clone(),
        loggers: handlers::loggers(),
        ..Default::default()
    };
    let ev = m.run(tree);
    // classification
    let kinds: Vec<String> = stmts.iter().map(stmt_kind).collect();
    let mut targets: BTreeMap<String, usize> = BTreeMap::new();
    let mut compound = false;
    for s in &stmts {
        if let R::Infix(op, l, _) = s {
            if crate::model::is_assign(op) {
                if let R::Ref(n) = &**l {
                    *targets.entry(n.clone()).or_insert(0) += 1;
                }
                compound |= op != "=";
            }
        }
    }
    let failing_later = matches!(ev, Ev::Err(_)) && stmts.len() > 1;
    st.hist(&format!("outcome:{}", ev_class(&ev)));
    if !matches!(ev, Ev::Unspec(_)) && (targets.values().any(|c| *c >= 2) || compound || failing_later) {
        st.nontrivial(&format!("{}=>{}", kinds.join(";"), ev_class(&ev)));
    }
    st.sample(|| json!({"text": text, "context": ctx_json(sc)}));
    let names = names_in_play(sc);
    let case = || case_json(tree, sc);

    // way 1: execute(text, ctx) with a second handle on the context
    handlers::reset();
    let ctx = handlers::context_of(&sc.bindings);
    let handle = handlers::share(&ctx);
    let r1 = guard(|| execute(&text, ctx).map_err(|e| e.to_string()));
    if let Err(why) = agree(&r1, &ev) {
        return Err(Failure::new(format!("{}:result:execute", kinds.last().cloned().unwrap_or_default()), format!("{}\n    {}", text, why), case()));
    }
    // way 2: parse + exec(&mut ctx)
    handlers::reset();
    let mut ctx2 = handlers::context_of(&sc.bindings);
    let r2 = guard(|| match parse_expression(&text) {
        Ok(ast) => ast.exec(&mut ctx2).map_err(|e| e.to_string()),
        Err(e) => Err(e.to_string()),
    });
    if let Err(why) = agree(&r2, &ev) {
        return Err(Failure::new(format!("{}:result:exec", kinds.last().cloned().unwrap_or_default()), format!("{}\n    {}", text, why), case()));
    }
    if matches!(ev, Ev::Unspec(_)) {
        st.exclude("context-not-compared:unspecified-value");
        return Ok(());
    }
    for (way, c) in [("execute", &handle), ("exec", &ctx2)] {
        let read = match guard(|| handlers::read_back(c, &names)) {
            Ok(r) => r,
            Err(p) => return Err(Failure::new("context:unreadable", format!("{}\n    reading the context after {} panicked: {}", text, way, p), case())),
        };
        if let Err(why) = compare_context(&m.ctx, &read) {
            let sig = if matches!(ev, Ev::Err(_)) { "context:after-failure" } else { "context:binding" };
            return Err(Failure::new(sig, format!("{}\n    after {}: {}", text, way, why), case()));
        }
    }
    Ok(())
}

fn case(src: &mut Src, st: &mut Stats, _env: &Env) -> CaseResult {
    st.eval();
    let mut c = cfg();
    // a fifth of the programs works at the edges of the numeric domain
    c.edge = src.chance(1, 5);
    let mut sc = gen_context(src, &c);
    // compound assignments need numbers: make most variables numeric
    for name in VAR_NAMES {
        if src.chance(2, 3) {
            let v = gen_value(src, &c, Ty::Num, 0);
            sc.bindings.insert(name.to_string(), Binding::Var(v));
        }
    }
    let stmts = gen_statements(src, &c, &sc, 10, true, true);
    let tree = R::Stmts(stmts);
    check(&tree, &sc, st)
}

fn replay(case: &J, st: &mut Stats, _env: &Env) -> CaseResult {
    st.eval();
    let (tree, sc) = tree_from_case(case)?;
    check(&tree, &sc, st)
}
