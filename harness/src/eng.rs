//! Thin, panic-guarded wrappers around the engine's public API.
use crate::model::{sexp_ast, Binding, V};
use crate::runner::guard;
use expression_engine::{execute, parse_expression, Context, Value};
use std::collections::BTreeMap;
use std::sync::Arc;

/// outer Err = panic description, inner Err = the engine's error text
pub type Guarded<T> = Result<Result<T, String>, String>;

pub fn exec_text(text: &str) -> Guarded<Value> {
    guard(|| execute(text, Context::new()).map_err(|e| e.to_string()))
}

pub fn exec_with(text: &str, ctx: Context) -> Guarded<Value> {
    guard(|| execute(text, ctx).map_err(|e| e.to_string()))
}

pub fn parse_sexp(text: &str) -> Guarded<String> {
    guard(|| parse_expression(text).map(|a| sexp_ast(&a)).map_err(|e| e.to_string()))
}

pub fn parse_ok(text: &str) -> Guarded<()> {
    guard(|| parse_expression(text).map(|_| ()).map_err(|e| e.to_string()))
}

/// builds an engine context from a model context; function bindings become constant closures
pub fn context_of(model: &BTreeMap<String, Binding>) -> Context {
    let mut ctx = Context::new();
    for (k, b) in model {
        match b {
            Binding::Var(v) => ctx.set_variable(k, v.to_value()),
            Binding::Func(id, _) if *id == crate::model::FAILING_FUNC => {
                // a context function that always fails (the crate's error type is not exported:
                // borrow one from a failing accessor)
                ctx.set_func(k, Arc::new(|_| Value::None.bool().map(|_| Value::None)));
            }
            Binding::Func(_, ret) => {
                let r = ret.to_value();
                ctx.set_func(k, Arc::new(move |_| Ok(r.clone())));
            }
        }
    }
    ctx
}

pub fn show(r: &Guarded<Value>) -> String {
    match r {
        Err(p) => format!("PANIC({})", p),
        Ok(Err(e)) => format!("Err({})", e),
        Ok(Ok(v)) => format!("Ok({})", V::from_value(v).key()),
    }
}
