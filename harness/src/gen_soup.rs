//! Character/token soup: strings assembled from the character and token classes that the
//! tokenizer distinguishes, with explicit bias toward every ordered adjacency of classes
//! (no separator between fragments most of the time).
use crate::src::Src;
use crate::syntax::OpTable;

/// the first NAME_START entries are not Unicode whitespace; among them characters with the Unicode
/// properties a "tidied" character test would pick up: numeric (No, Nd, Nl), cased with a multi-character
/// case mapping, titlecase, combining mark, zero-width
pub const MULTIBYTE: [&str; 22] = [
    "é", "˱", "ß", "日", "本", "𝄞", "😀", "²", "٣", "½", "２", "Ⅷ", "İ", "ǅ", "\u{301}", "\u{200b}", "\u{a0}", "\u{2003}", "\u{3000}", "\u{85}", "\u{feff}", "\u{1680}",
];
pub const NAME_START: usize = 16;
pub const OTHER_FIRST: [&str; 10] = ["@", "~", "#", "$", "`", "\\", "_", ".", "é", "日"];
pub const WS: [&str; 4] = [" ", "\t", "\r", "\n"];
pub const ODD_WS: [&str; 4] = ["\u{b}", "\u{c}", "\u{a0}", "\u{2028}"];
pub const WORDS: [&str; 24] = [
    "true", "True", "false", "False", "TRUE", "trueish", "true.x", "in", "inside", "in1", "not", "notx", "AND", "ANDY", "OR", "ORx", "beginWith",
    "endWith", "beginwith", "a", "foo", "x.y", "_t", "min",
];

pub const CLASSES: [&str; 14] = [
    "special", "opword", "open", "close", "digits", "quote", "semi", "comma", "ws", "name", "keyword", "multibyte", "other", "oddws",
];

/// one fragment of the given class
pub fn fragment(src: &mut Src, class: usize, ops: &[String]) -> String {
    match CLASSES[class] {
        "special" => {
            let n = 1 + src.weighted(&[6, 3, 1]);
            (0..n).map(|_| crate::syntax::SPECIAL.chars().nth(src.pick(14)).unwrap()).collect()
        }
        "opword" => src.choose(ops).clone(),
        "open" => src.choose(&["(", "[", "{"]).to_string(),
        "close" => src.choose(&[")", "]", "}"]).to_string(),
        "digits" => {
            let n = 1 + src.pick(6);
            let mut s = String::new();
            for i in 0..n {
                let k = if i == 0 { 0 } else { src.weighted(&[10, 3, 1, 1, 1, 1]) };
                s.push_str(match k {
                    0 => ["0", "1", "7", "9", "42", "123456789012345678901234567890"][src.weighted(&[3, 3, 3, 3, 2, 1])],
                    1 => ".",
                    2 => "e",
                    3 => "E",
                    4 => "+",
                    _ => "-",
                });
            }
            s
        }
        "quote" => match src.pick(6) {
            0 => "\"".to_string(),
            1 => "'".to_string(),
            2 => format!("'{}'", src.choose(&["", "a", "é", "a\"b", " x ", "+", "日本"])),
            3 => format!("\"{}\"", src.choose(&["", "b", "𝄞", "it's", "\t", "(", "\\"])),
            4 => format!("'{}", src.choose(&["abc", "é", ""])),
            _ => format!("\"{}", src.choose(&["abc", "日", "'"])),
        },
        "semi" => ";".to_string(),
        "comma" => ",".to_string(),
        "ws" => {
            let n = 1 + src.pick(3);
            (0..n).map(|_| *src.choose(&WS)).collect()
        }
        "name" => {
            let n = 1 + src.pick(5);
            let mut s = String::new();
            for i in 0..n {
                let pool: &[&str] = if i == 0 { &["a", "b", "x", "Z", "f", "_", "q"] } else { &["a", "1", "_", ".", "Z", "9", "e", "E"] };
                s.push_str(*src.choose(pool));
            }
            s
        }
        "keyword" => src.choose(&WORDS).to_string(),
        "multibyte" => src.choose(&MULTIBYTE).to_string(),
        "other" => src.choose(&OTHER_FIRST).to_string(),
        _ => src.choose(&ODD_WS).to_string(),
    }
}

pub struct Soup {
    pub text: String,
    /// classes of consecutive fragments that were joined without a separator
    pub adjacencies: Vec<(usize, usize)>,
    pub non_ascii: bool,
}

pub fn gen_soup(src: &mut Src, tab: &OpTable, max_frags: usize) -> Soup {
    let mut ops: Vec<String> = tab.infix.keys().cloned().collect();
    ops.extend(tab.prefix.iter().cloned());
    ops.extend(tab.postfix.iter().cloned());
    ops.push("?".into());
    ops.push(":".into());
    let n = src.pick(max_frags + 1);
    let mut text = String::new();
    let mut adj = vec![];
    let mut prev: Option<usize> = None;
    for _ in 0..n {
        let c = src.pick(CLASSES.len());
        let frag = fragment(src, c, &ops);
        let glue = src.chance(3, 4);
        if !glue {
            text.push(' ');
        } else if let Some(p) = prev {
            adj.push((p, c));
        }
        text.push_str(&frag);
        prev = Some(c);
    }
    let non_ascii = !text.is_ascii();
    Soup {
        text,
        adjacencies: adj,
        non_ascii,
    }
}
