//! `vh` — verification harness for expression_engine (property-based testing / fuzzing).
//!   vh run <ID> [--tier quick|thorough] [--seed N]      parent: shards, evidence, verdict
//!   vh shard <ID> --tier T --seed N --index I --of K --out DIR
//!   vh replay <ID> <file>
//!   vh worker <kind>                                     one scenario on stdin, observations on stdout
pub mod bigdec;
pub mod eng;
pub mod handlers;
pub mod gen_sem;
pub mod gen_soup;
pub mod gen_syntax;
pub mod model;
pub mod props;
pub mod runner;
pub mod src;
pub mod syntax;

use runner::*;
use std::path::PathBuf;

fn arg_after(args: &[String], flag: &str) -> Option<String> {
    args.iter().position(|a| a == flag).and_then(|i| args.get(i + 1).cloned())
}

pub fn cli_main() {
    let args: Vec<String> = std::env::args().collect();
    let exe = std::env::current_exe().expect("current exe");
    if args.len() < 3 {
        eprintln!("usage: vh run|shard|replay|worker <ID|kind> ...");
        std::process::exit(2);
    }
    let mode = args[1].as_str();
    if mode == "worker" {
        std::process::exit(props::worker_main(&args[2], &args[3..]));
    }
    let prop = match props::all().into_iter().find(|p| p.id == args[2]) {
        Some(p) => p,
        None => {
            eprintln!("unknown property {}", args[2]);
            std::process::exit(2);
        }
    };
    let tier = match arg_after(&args, "--tier").or_else(|| std::env::var("VERIF_TIER").ok()).as_deref() {
        Some("thorough") => Tier::Thorough,
        _ => Tier::Quick,
    };
    let seed: u64 = arg_after(&args, "--seed")
        .or_else(|| std::env::var("VERIF_SEED").ok())
        .and_then(|s| s.trim().parse().ok())
        .unwrap_or(1);
    let code = match mode {
        "run" => parent_main(prop, tier, seed, exe),
        "shard" => {
            let env = Env {
                id: prop.id,
                tier,
                seed,
                shard: arg_after(&args, "--index").and_then(|s| s.parse().ok()).unwrap_or(0),
                of: arg_after(&args, "--of").and_then(|s| s.parse().ok()).unwrap_or(1),
                exe,
                known: load_known(prop.id),
                strict: false,
                profile: PROFILE,
                out_dir: PathBuf::from(arg_after(&args, "--out").unwrap_or_else(|| "/verif/out/run/tmp".into())),
            };
            shard_main(prop, env)
        }
        "replay" => replay_main(prop, args.get(3).map(|s| s.as_str()).unwrap_or(""), exe),
        _ => {
            eprintln!("unknown mode {}", mode);
            2
        }
    };
    std::process::exit(code);
}
