//! Reference syntax, written from the documented rules (README + property statements), not
//! from the engine's code: operator table, tokenizer, precedence-climbing parser (with token
//! spans of every complete subexpression) and a lenient nondeterministic recogniser.
use crate::bigdec::{Big, BigDec};
use crate::model::R;
use std::collections::{BTreeMap, BTreeSet};

#[derive(Clone, Debug)]
pub struct OpTable {
    /// name -> (precedence, right associative)
    pub infix: BTreeMap<String, (i64, bool)>,
    pub prefix: BTreeSet<String>,
    pub postfix: BTreeSet<String>,
}

pub const INFIX_BUILTIN: [(&str, i64, bool); 31] = [
    ("=", 20, true),
    ("+=", 20, true),
    ("-=", 20, true),
    ("*=", 20, true),
    ("/=", 20, true),
    ("%=", 20, true),
    ("<<=", 20, true),
    (">>=", 20, true),
    ("&=", 20, true),
    ("^=", 20, true),
    ("|=", 20, true),
    ("||", 40, false),
    ("&&", 50, false),
    ("<", 60, false),
    ("<=", 60, false),
    (">", 60, false),
    (">=", 60, false),
    ("==", 60, false),
    ("!=", 60, false),
    ("|", 70, false),
    ("^", 80, false),
    ("&", 90, false),
    ("<<", 100, false),
    (">>", 100, false),
    ("+", 110, false),
    ("-", 110, false),
    ("*", 120, false),
    ("/", 120, false),
    ("%", 120, false),
    ("beginWith", 200, false),
    ("endWith", 200, false),
];
// `in` (200, left) is the 32nd: it is in the operator table although the README table omits it
pub const PREFIX_BUILTIN: [&str; 6] = ["-", "+", "!", "not", "AND", "OR"];
pub const POSTFIX_BUILTIN: [&str; 2] = ["++", "--"];

impl OpTable {
    pub fn builtin() -> OpTable {
        let mut infix = BTreeMap::new();
        for (n, p, r) in INFIX_BUILTIN {
            infix.insert(n.to_string(), (p, r));
        }
        infix.insert("in".to_string(), (200, false));
        OpTable {
            infix,
            prefix: PREFIX_BUILTIN.iter().map(|s| s.to_string()).collect(),
            postfix: POSTFIX_BUILTIN.iter().map(|s| s.to_string()).collect(),
        }
    }
    pub fn is_op(&self, s: &str) -> bool {
        s == "?" || s == ":" || self.infix.contains_key(s) || self.prefix.contains(s) || self.postfix.contains(s)
    }
    pub fn is_infix(&self, s: &str) -> bool {
        self.infix.contains_key(s)
    }
}

#[derive(Clone, Copy, Debug, PartialEq, Eq, Hash)]
pub enum TK {
    Op,
    Delim,
    Num,
    Comma,
    Semi,
    Bool,
    Str,
    Ref,
    Func,
}

impl TK {
    pub fn name(&self) -> &'static str {
        match self {
            TK::Op => "operator",
            TK::Delim => "delim",
            TK::Num => "number",
            TK::Comma => "comma",
            TK::Semi => "semicolon",
            TK::Bool => "bool",
            TK::Str => "string",
            TK::Ref => "reference",
            TK::Func => "function",
        }
    }
}

#[derive(Clone, Debug, PartialEq)]
pub struct Tok {
    pub kind: TK,
    /// exact source slice (a string includes its quotes)
    pub text: String,
    pub start: usize,
    pub end: usize,
}

impl Tok {
    pub fn new(kind: TK, text: &str) -> Tok {
        Tok {
            kind,
            text: text.to_string(),
            start: 0,
            end: 0,
        }
    }
    pub fn is_op(&self, s: &str) -> bool {
        self.kind == TK::Op && self.text == s
    }
    pub fn is_delim(&self, s: &str) -> bool {
        self.kind == TK::Delim && self.text == s
    }
    pub fn payload(&self) -> &str {
        if self.kind == TK::Str && self.text.len() >= 2 {
            &self.text[1..self.text.len() - 1]
        } else {
            &self.text
        }
    }
}

pub const SPECIAL: &str = "+-*/^%&!=?:><|";
pub const DELIMS: &str = "()[]{}";

pub fn is_ws(c: char) -> bool {
    c == ' ' || c == '\t' || c == '\r' || c == '\n'
}
pub fn is_name_body(c: char) -> bool {
    c.is_ascii_alphanumeric() || c == '.' || c == '_'
}

/// `digits[.digits*]` whose integer part fits the 96-bit range
pub fn valid_number(s: &str) -> bool {
    let (ip, fp) = match s.split_once('.') {
        Some((a, b)) => (a, b),
        None => (s, ""),
    };
    if ip.is_empty() || !ip.bytes().all(|b| b.is_ascii_digit()) || !fp.bytes().all(|b| b.is_ascii_digit()) {
        return false;
    }
    match Big::from_dec_str(ip) {
        Some(b) => b.bits() <= 96,
        None => false,
    }
}

/// Reference tokenizer.  Returns the tokens up to the first lexical error and the error.
pub fn lex(input: &str, tab: &OpTable) -> (Vec<Tok>, Option<String>) {
    let chars: Vec<(usize, char)> = input.char_indices().collect();
    let n = chars.len();
    let off = |i: usize| if i < n { chars[i].0 } else { input.len() };
    let mut toks = Vec::new();
    let mut i = 0;
    while i < n {
        let (start, c) = chars[i];
        if is_ws(c) {
            i += 1;
            continue;
        }
        let mut j = i + 1;
        let kind;
        if SPECIAL.contains(c) {
            // greedy: extend while the extended text is still an operator
            while j < n && tab.is_op(&input[start..off(j + 1)]) {
                j += 1;
            }
            kind = TK::Op;
        } else if DELIMS.contains(c) {
            kind = TK::Delim;
        } else if c.is_ascii_digit() {
            while j < n {
                let d = chars[j].1;
                let prev = chars[j - 1].1;
                let ok = d.is_ascii_digit() || d == '.' || d == 'e' || d == 'E' || ((d == '+' || d == '-') && (prev == 'e' || prev == 'E'));
                if !ok {
                    break;
                }
                j += 1;
            }
            if !valid_number(&input[start..off(j)]) {
                return (toks, Some(format!("malformed number {}", &input[start..off(j)])));
            }
            kind = TK::Num;
        } else if c == '"' || c == '\'' {
            while j < n && chars[j].1 != c {
                j += 1;
            }
            if j >= n {
                return (toks, Some("unterminated string".into()));
            }
            j += 1;
            kind = TK::Str;
        } else if c == ';' {
            kind = TK::Semi;
        } else if c == ',' {
            kind = TK::Comma;
        } else {
            // whole-word operator?
            let mut k = i + 1;
            while k < n && !is_ws(chars[k].1) && !DELIMS.contains(chars[k].1) {
                k += 1;
            }
            if tab.is_op(&input[start..off(k)]) {
                j = k;
                kind = TK::Op;
            } else {
                while j < n && is_name_body(chars[j].1) {
                    j += 1;
                }
                let word = &input[start..off(j)];
                if word == "true" || word == "True" || word == "false" || word == "False" {
                    kind = TK::Bool;
                } else {
                    let mut k = j;
                    while k < n && is_ws(chars[k].1) {
                        k += 1;
                    }
                    kind = if k < n && chars[k].1 == '(' { TK::Func } else { TK::Ref };
                }
            }
        }
        toks.push(Tok {
            kind,
            text: input[start..off(j)].to_string(),
            start,
            end: off(j),
        });
        i = j;
    }
    (toks, None)
}

// ---------------------------------------------------------------------------------------
// reference parser

#[derive(Clone, Debug)]
pub struct Span {
    pub start: usize,
    pub end: usize,
    pub kind: &'static str,
}

pub struct Parser<'a> {
    toks: &'a [Tok],
    pos: usize,
    tab: &'a OpTable,
    pub spans: Vec<Span>,
}

type PRes = Result<R, String>;

fn kind_of(r: &R) -> &'static str {
    match r {
        R::Num(_) => "num",
        R::Str(..) => "str",
        R::Bool(_) => "bool",
        R::Ref(_) => "ref",
        R::Call(..) => "call",
        R::List(_) => "list",
        R::Map(_) => "map",
        R::Prefix(..) => "prefix",
        R::Postfix(..) => "postfix",
        R::Infix(..) => "infix",
        R::NotInfix(..) => "notinfix",
        R::Cond(..) => "cond",
        R::Stmts(_) => "stmts",
    }
}

impl<'a> Parser<'a> {
    pub fn new(toks: &'a [Tok], tab: &'a OpTable) -> Self {
        Parser {
            toks,
            pos: 0,
            tab,
            spans: vec![],
        }
    }
    fn peek(&self) -> Option<&'a Tok> {
        self.toks.get(self.pos)
    }
    fn peek_at(&self, k: usize) -> Option<&'a Tok> {
        self.toks.get(self.pos + k)
    }
    fn note(&mut self, start: usize, r: &R) {
        self.spans.push(Span {
            start,
            end: self.pos,
            kind: kind_of(r),
        });
    }

    pub fn program(&mut self) -> PRes {
        let mut stmts = vec![];
        while self.pos < self.toks.len() {
            stmts.push(self.expr()?);
            if let Some(t) = self.peek() {
                if t.kind == TK::Semi {
                    self.pos += 1;
                }
            }
        }
        Ok(R::Stmts(stmts))
    }

    pub fn expr(&mut self) -> PRes {
        let start = self.pos;
        let c = self.infix(0)?;
        if self.peek().map(|t| t.is_op("?")).unwrap_or(false) {
            self.pos += 1;
            let a = self.expr()?;
            match self.peek() {
                Some(t) if t.is_op(":") => self.pos += 1,
                _ => return Err("':' expected in conditional".into()),
            }
            let b = self.expr()?;
            let r = R::Cond(Box::new(c), Box::new(a), Box::new(b));
            self.note(start, &r);
            return Ok(r);
        }
        Ok(c)
    }

    fn infix(&mut self, min_bp: i64) -> PRes {
        let start = self.pos;
        let mut lhs = self.prefix()?;
        loop {
            let (negated, op) = match self.peek() {
                Some(t) if t.is_op("not") => match self.peek_at(1) {
                    Some(t2) if t2.kind == TK::Op && self.tab.is_infix(&t2.text) => (true, t2.text.clone()),
                    _ => return Err("'not' must be followed by an infix operator here".into()),
                },
                Some(t) if t.kind == TK::Op && self.tab.is_infix(&t.text) => (false, t.text.clone()),
                _ => break,
            };
            let (p, right) = self.tab.infix[&op];
            let lbp = 2 * p;
            let rbp = if right { 2 * p - 1 } else { 2 * p + 1 };
            if lbp < min_bp {
                break;
            }
            self.pos += if negated { 2 } else { 1 };
            let rhs = self.infix(rbp)?;
            lhs = if negated {
                R::NotInfix(op, Box::new(lhs), Box::new(rhs))
            } else {
                R::Infix(op, Box::new(lhs), Box::new(rhs))
            };
            self.note(start, &lhs);
        }
        Ok(lhs)
    }

    fn prefix(&mut self) -> PRes {
        let start = self.pos;
        if let Some(t) = self.peek() {
            if t.kind == TK::Op {
                if !self.tab.prefix.contains(&t.text) {
                    return Err(format!("operator {} cannot start an operand", t.text));
                }
                self.pos += 1;
                let x = self.prefix()?;
                let r = R::Prefix(t.text.clone(), Box::new(x));
                self.note(start, &r);
                return Ok(r);
            }
        }
        let a = self.atom()?;
        if let Some(t) = self.peek() {
            if t.kind == TK::Op && self.tab.postfix.contains(&t.text) {
                self.pos += 1;
                let r = R::Postfix(Box::new(a), t.text.clone());
                self.note(start, &r);
                return Ok(r);
            }
        }
        Ok(a)
    }

    fn expect_delim(&mut self, d: &str) -> Result<(), String> {
        match self.peek() {
            Some(t) if t.is_delim(d) => {
                self.pos += 1;
                Ok(())
            }
            _ => Err(format!("'{}' expected", d)),
        }
    }

    fn atom(&mut self) -> PRes {
        let start = self.pos;
        let t = match self.peek() {
            Some(t) => t,
            None => return Err("unexpected end of input".into()),
        };
        self.pos += 1;
        let r = match t.kind {
            TK::Num => R::Num(t.text.clone()),
            TK::Str => R::Str(t.payload().to_string(), t.text.chars().next().unwrap_or('"')),
            TK::Bool => R::Bool(t.text.clone()),
            TK::Ref => R::Ref(t.text.clone()),
            TK::Func => {
                self.expect_delim("(")?;
                let mut args = vec![];
                if self.peek().map(|x| x.is_delim(")")).unwrap_or(false) {
                    self.pos += 1;
                } else {
                    loop {
                        args.push(self.expr()?);
                        match self.peek() {
                            Some(x) if x.is_delim(")") => {
                                self.pos += 1;
                                break;
                            }
                            Some(x) if x.kind == TK::Comma => self.pos += 1,
                            _ => return Err("',' or ')' expected in call".into()),
                        }
                    }
                }
                R::Call(t.text.clone(), args)
            }
            TK::Delim => match t.text.as_str() {
                "(" => {
                    let inner = self.expr()?;
                    self.expect_delim(")")?;
                    // the group itself is a complete subexpression too
                    self.spans.push(Span {
                        start,
                        end: self.pos,
                        kind: "paren",
                    });
                    return Ok(inner);
                }
                "[" => {
                    let mut items = vec![];
                    loop {
                        if self.peek().map(|x| x.is_delim("]")).unwrap_or(false) {
                            self.pos += 1;
                            break;
                        }
                        items.push(self.expr()?);
                        match self.peek() {
                            Some(x) if x.is_delim("]") => {}
                            Some(x) if x.kind == TK::Comma => self.pos += 1,
                            _ => return Err("',' or ']' expected in list".into()),
                        }
                    }
                    R::List(items)
                }
                "{" => {
                    let mut items = vec![];
                    loop {
                        if self.peek().map(|x| x.is_delim("}")).unwrap_or(false) {
                            self.pos += 1;
                            break;
                        }
                        let k = self.expr()?;
                        match self.peek() {
                            Some(x) if x.is_op(":") => self.pos += 1,
                            _ => return Err("':' expected in map".into()),
                        }
                        let v = self.expr()?;
                        items.push((k, v));
                        match self.peek() {
                            Some(x) if x.is_delim("}") => {}
                            Some(x) if x.kind == TK::Comma => self.pos += 1,
                            _ => return Err("',' or '}' expected in map".into()),
                        }
                    }
                    R::Map(items)
                }
                other => return Err(format!("unexpected '{}'", other)),
            },
            _ => return Err(format!("unexpected token {}", t.text)),
        };
        self.note(start, &r);
        Ok(r)
    }
}

pub fn parse_tokens(toks: &[Tok], tab: &OpTable) -> Result<(R, Vec<Span>), String> {
    let mut p = Parser::new(toks, tab);
    let r = p.program()?;
    Ok((r, p.spans))
}

pub fn parse_text(text: &str, tab: &OpTable) -> Result<(R, Vec<Tok>, Vec<Span>), String> {
    let (toks, e) = lex(text, tab);
    if let Some(e) = e {
        return Err(e);
    }
    let (r, spans) = parse_tokens(&toks, tab)?;
    Ok((r, toks, spans))
}

// ---------------------------------------------------------------------------------------
// lenient, nondeterministic recogniser (for C05): does ANY reading make the token stream a
// sentence?  Sets of end positions are bit masks, so streams are limited to 62 tokens.

pub struct Recog<'a> {
    toks: &'a [Tok],
    tab: &'a OpTable,
    memo_expr: Vec<Option<u64>>,
    memo_operand: Vec<Option<u64>>,
    depth: usize,
}

impl<'a> Recog<'a> {
    pub fn new(toks: &'a [Tok], tab: &'a OpTable) -> Self {
        Recog {
            toks,
            tab,
            memo_expr: vec![None; toks.len() + 2],
            memo_operand: vec![None; toks.len() + 2],
            depth: 0,
        }
    }

    pub fn accepts(toks: &'a [Tok], tab: &'a OpTable) -> bool {
        if toks.len() > 62 {
            return true; // out of the recogniser's range: nothing is asserted
        }
        let mut r = Recog::new(toks, tab);
        let n = toks.len();
        // program := { expr [';'] }
        let mut reach: u64 = 1;
        let mut done: u64 = 0;
        while reach & !done != 0 {
            let p = (reach & !done).trailing_zeros() as usize;
            done |= 1 << p;
            if p >= n {
                continue;
            }
            let ends = r.expr(p);
            for e in 0..=n {
                if ends >> e & 1 == 1 {
                    reach |= 1 << e;
                    if e < n && toks[e].kind == TK::Semi {
                        reach |= 1 << (e + 1);
                    }
                }
            }
        }
        reach >> n & 1 == 1
    }

    fn is(&self, p: usize, kind: TK, text: &str) -> bool {
        self.toks.get(p).map(|t| t.kind == kind && t.text == text).unwrap_or(false)
    }

    fn expr(&mut self, p: usize) -> u64 {
        if p >= self.toks.len() {
            return 0;
        }
        if let Some(m) = self.memo_expr[p] {
            return m;
        }
        self.depth += 1;
        let mut out = 0u64;
        if self.depth < 200 {
            let seqs = self.infix_seq(p);
            out |= seqs;
            for e1 in 0..self.toks.len() {
                if seqs >> e1 & 1 == 1 && self.is(e1, TK::Op, "?") {
                    let thens = self.expr(e1 + 1);
                    for e2 in 0..self.toks.len() {
                        if thens >> e2 & 1 == 1 && self.is(e2, TK::Op, ":") {
                            out |= self.expr(e2 + 1);
                        }
                    }
                }
            }
        }
        self.depth -= 1;
        self.memo_expr[p] = Some(out);
        out
    }

    /// operand { [not] INFIX operand }
    fn infix_seq(&mut self, p: usize) -> u64 {
        let n = self.toks.len();
        let mut reach = self.operand(p);
        let mut done = 0u64;
        while reach & !done != 0 {
            let e = (reach & !done).trailing_zeros() as usize;
            done |= 1 << e;
            if e >= n {
                continue;
            }
            let mut q = e;
            if self.is(q, TK::Op, "not") {
                q += 1;
            }
            if q < n && self.toks[q].kind == TK::Op && self.tab.is_infix(&self.toks[q].text) {
                reach |= self.operand(q + 1);
            }
            // `not` itself could also be read as an infix operator name only if registered so
            if q != e && self.tab.is_infix("not") {
                reach |= self.operand(e + 1);
            }
        }
        reach
    }

    fn operand(&mut self, p: usize) -> u64 {
        if p >= self.toks.len() {
            return 0;
        }
        if let Some(m) = self.memo_operand[p] {
            return m;
        }
        self.depth += 1;
        let mut out = 0u64;
        if self.depth < 200 {
            let t = &self.toks[p];
            if t.kind == TK::Op && self.tab.prefix.contains(&t.text) {
                out |= self.operand(p + 1);
            }
            let mut ends = self.atom(p);
            // any number of postfix operators
            let n = self.toks.len();
            let mut done = 0u64;
            while ends & !done != 0 {
                let e = (ends & !done).trailing_zeros() as usize;
                done |= 1 << e;
                if e < n && self.toks[e].kind == TK::Op && self.tab.postfix.contains(&self.toks[e].text) {
                    ends |= 1 << (e + 1);
                }
            }
            out |= ends;
        }
        self.depth -= 1;
        self.memo_operand[p] = Some(out);
        out
    }

    /// items separated by commas up to `close`; `trailing` allows a comma before the closer;
    /// `entry` parses one item and returns its end positions
    fn items(&mut self, p: usize, close: &str, trailing: bool, map: bool) -> u64 {
        let n = self.toks.len();
        let mut out = 0u64;
        // positions where an item may start
        let mut starts: u64 = 1 << p;
        let mut done = 0u64;
        let mut first = true;
        while starts & !done != 0 {
            let s = (starts & !done).trailing_zeros() as usize;
            done |= 1 << s;
            if s >= n {
                continue;
            }
            if self.is(s, TK::Delim, close) && (s == p || trailing) {
                out |= 1 << (s + 1);
            }
            let _ = first;
            first = false;
            let mut ends = 0u64;
            if map {
                let ks = self.expr(s);
                for e in 0..n {
                    if ks >> e & 1 == 1 && self.is(e, TK::Op, ":") {
                        ends |= self.expr(e + 1);
                    }
                }
            } else {
                ends = self.expr(s);
            }
            for e in 0..n {
                if ends >> e & 1 == 1 {
                    if self.is(e, TK::Delim, close) {
                        out |= 1 << (e + 1);
                    }
                    if self.toks[e].kind == TK::Comma {
                        starts |= 1 << (e + 1);
                    }
                }
            }
        }
        out
    }

    fn atom(&mut self, p: usize) -> u64 {
        let t = &self.toks[p];
        match t.kind {
            TK::Num | TK::Str | TK::Bool | TK::Ref => 1 << (p + 1),
            TK::Func => {
                if self.is(p + 1, TK::Delim, "(") {
                    self.items(p + 2, ")", false, false)
                } else {
                    0
                }
            }
            TK::Delim => match t.text.as_str() {
                "(" => {
                    let ends = self.expr(p + 1);
                    let mut out = 0;
                    for e in 0..self.toks.len() {
                        if ends >> e & 1 == 1 && self.is(e, TK::Delim, ")") {
                            out |= 1 << (e + 1);
                        }
                    }
                    out
                }
                "[" => self.items(p + 1, "]", true, false),
                "{" => self.items(p + 1, "}", true, true),
                _ => 0,
            },
            _ => 0,
        }
    }
}

pub fn literal_value(text: &str) -> Option<BigDec> {
    BigDec::from_literal(text)
}

#[cfg(test)]
mod tests {
    use super::*;
    fn p(s: &str) -> String {
        let tab = OpTable::builtin();
        match parse_text(s, &tab) {
            Ok((r, _, _)) => r.sexp(),
            Err(e) => format!("ERR {}", e),
        }
    }
    fn acc(s: &str) -> bool {
        let tab = OpTable::builtin();
        let (toks, e) = lex(s, &tab);
        e.is_none() && Recog::accepts(&toks, &tab)
    }
    #[test]
    fn parser() {
        assert_eq!(p("1+2*3"), p("1+(2*3)"));
        assert_eq!(p("1-2-3"), p("(1-2)-3"));
        assert_eq!(p("a=b=c"), p("a=(b=c)"));
        assert_eq!(p("5 < 2+3 ? 4 : 2"), p("(5 < (2+3)) ? 4 : 2"));
        assert_eq!(p("a ? b : c ? d : e"), p("a ? b : (c ? d : e)"));
        assert_eq!(p("- x ++"), p("-(x ++)"));
        assert_eq!(p("1 + 2*3 not == 7"), "(un s3:not (bin s2:== (bin s1:+ (num 1e-0) (bin s1:* (num 2e-0) (num 3e-0))) (num 7e-0)))");
        assert_eq!(p("true && 3 not in [3]"), p("true && (3 not in [3])"));
        assert_eq!(p("f (1, 2)"), "(call s1:f (num 1e-0) (num 2e-0))");
        assert_eq!(p("1 2"), "(stmt (num 1e-0) (num 2e-0))");
        assert_eq!(p(""), "(stmt)");
        assert_eq!(p("x<<=1"), "(bin s3:<<= (ref s1:x) (num 1e-0))");
        assert!(p("* 3").starts_with("ERR"));
    }
    #[test]
    fn recogniser() {
        for s in ["1", "1;2", "1 2", "[1,2,]", "{1:2,}", "f(1,2)", "a ? b : c", "- - x ++", "a not in b", "not a", "", "1;", "x ++ ++", "{a ? b : c : d}"] {
            assert!(acc(s), "{}", s);
        }
        for s in ["[1)2]", "{1,2}", "f(1]2)", "true ? 1 , 2", "* 3", ": 2", "in [1]", "1 * * 2", ";", "1;;2", "(1", "1)", "[1 2]", "f(1,)", "f(,)", "1 +", "a ? b", "'abc", "1.2.3", ",", "[,]", "{1:}"] {
            assert!(!acc(s), "{}", s);
        }
    }
}
