//! Engine-side harness handlers: logging functions and operators with preset results that can
//! be armed to fail (Err or panic) on their k-th invocation.  All state is thread-local.
use crate::model::{Binding, Loggers, V};
use expression_engine::{
    register_function, register_infix_op, register_postfix_op, register_prefix_op, Context, InfixOpAssociativity, InfixOpType, Value,
};
use std::cell::RefCell;
use std::collections::BTreeMap;
use std::sync::{Arc, Once};

#[derive(Clone, Copy, Debug, PartialEq)]
pub enum Mode {
    Err,
    Panic,
}

pub const PANIC_PAYLOAD: &str = "vh-injected-panic";

thread_local! {
    static LOG: RefCell<Vec<(u32, Vec<V>)>> = RefCell::new(Vec::new());
    static ARM: RefCell<Option<(usize, Mode)>> = RefCell::new(None);
    /// extra action run inside every handler before it returns (C14 probes)
    static PROBE: RefCell<Option<Arc<dyn Fn(u32) + Send + Sync>>> = RefCell::new(None);
}

pub fn reset() {
    LOG.with(|l| l.borrow_mut().clear());
    ARM.with(|a| *a.borrow_mut() = None);
}

pub fn arm(k: usize, mode: Mode) {
    ARM.with(|a| *a.borrow_mut() = Some((k, mode)));
}

pub fn take_log() -> Vec<(u32, Vec<V>)> {
    LOG.with(|l| std::mem::take(&mut *l.borrow_mut()))
}

pub fn log_len() -> usize {
    LOG.with(|l| l.borrow().len())
}

pub fn set_probe(p: Option<Arc<dyn Fn(u32) + Send + Sync>>) {
    PROBE.with(|x| *x.borrow_mut() = p);
}

/// what every harness handler does
pub fn on_call(id: u32, args: &[Value], ret: &V) -> expression_engine::Result<Value> {
    let idx = LOG.with(|l| {
        let mut l = l.borrow_mut();
        l.push((id, args.iter().map(V::from_value).collect()));
        l.len() - 1
    });
    let probe = PROBE.with(|p| p.borrow().clone());
    if let Some(p) = probe {
        p(id);
    }
    if id == crate::model::FAILING_FUNC {
        // the context function that always fails
        return Value::None.decimal().map(Value::Number);
    }
    let armed = ARM.with(|a| *a.borrow());
    if let Some((k, mode)) = armed {
        if k == idx {
            match mode {
                // an error value of the engine's own (unnameable) error type
                Mode::Err => return Value::None.decimal().map(Value::Number),
                Mode::Panic => panic!("{}", PANIC_PAYLOAD),
            }
        }
    }
    Ok(ret.to_value())
}

pub const GLOBAL_FUNCS: [(&str, u32); 4] = [("vh_g0", 10), ("vh_g1", 11), ("vh_g2", 12), ("vh_g3", 13)];
pub const PREFIX_OPS: [(&str, u32); 2] = [("vh_pre0", 20), ("vh_pre1", 21)];
pub const INFIX_OPS: [(&str, u32); 2] = [("vh_in0", 30), ("vh_in1", 31)];
pub const POSTFIX_OPS: [(&str, u32); 2] = [("vh_post0", 40), ("vh_post1", 41)];
pub const SETTER_OPS: [(&str, u32); 1] = [("vh_set0", 32)];

pub fn preset(id: u32) -> V {
    match id {
        10 => V::num("7"),
        11 => V::Bool(true),
        12 => V::Str("s".into()),
        13 => V::List(vec![V::num("1"), V::num("2")]),
        20 => V::num("3"),
        21 => V::Bool(false),
        30 => V::num("5"),
        32 => V::num("11"),
        31 => V::Bool(true),
        40 => V::num("9"),
        41 => V::Str("p".into()),
        _ => V::None,
    }
}

static REGISTER: Once = Once::new();

/// registers the `vh_*` handlers once per process
pub fn setup() {
    REGISTER.call_once(|| {
        for (name, id) in GLOBAL_FUNCS {
            let ret = preset(id);
            register_function(name, Arc::new(move |args| on_call(id, &args, &ret)));
        }
        for (name, id) in PREFIX_OPS {
            let ret = preset(id);
            register_prefix_op(name, Arc::new(move |a| on_call(id, &[a], &ret)));
        }
        for (name, id) in INFIX_OPS {
            let ret = preset(id);
            register_infix_op(
                name,
                115,
                InfixOpType::CALC,
                // the second logging operator is right-associative: operands are still evaluated
                // left to right (programs are rendered fully parenthesised)
                if name == "vh_in1" { InfixOpAssociativity::RIGHT } else { InfixOpAssociativity::LEFT },
                Arc::new(move |a, b| on_call(id, &[a, b], &ret)),
            );
        }
        for (name, id) in POSTFIX_OPS {
            let ret = preset(id);
            register_postfix_op(name, Arc::new(move |a| on_call(id, &[a], &ret)));
        }
        for (name, id) in SETTER_OPS {
            let ret = preset(id);
            register_infix_op(
                name,
                20,
                InfixOpType::SETTER,
                InfixOpAssociativity::RIGHT,
                Arc::new(move |a, b| on_call(id, &[a, b], &ret)),
            );
        }
    });
}

pub fn loggers() -> Loggers {
    let mut l = Loggers::default();
    for (n, id) in GLOBAL_FUNCS {
        l.functions.insert(n.to_string(), (id, preset(id)));
    }
    for (n, id) in PREFIX_OPS {
        l.prefix.insert(n.to_string(), (id, preset(id)));
    }
    for (n, id) in INFIX_OPS {
        l.infix.insert(n.to_string(), (id, preset(id)));
    }
    for (n, id) in POSTFIX_OPS {
        l.postfix.insert(n.to_string(), (id, preset(id)));
    }
    for (n, id) in SETTER_OPS {
        l.setters.insert(n.to_string(), (id, preset(id)));
    }
    l
}

/// engine context for a model context; function bindings become logging closures
pub fn context_of(model: &BTreeMap<String, Binding>) -> Context {
    // an empty context is built the documented way, with the argument-less macro
    let mut ctx = if model.is_empty() { expression_engine::create_context!() } else { Context::new() };
    for (k, b) in model {
        match b {
            Binding::Var(v) => ctx.set_variable(k, v.to_value()),
            Binding::Func(id, ret) => {
                let (id, ret) = (*id, ret.clone());
                ctx.set_func(k, Arc::new(move |args| on_call(id, &args, &ret)));
            }
        }
    }
    ctx
}

/// a second handle on the same context (Context is not Clone, its field is public)
pub fn share(ctx: &Context) -> Context {
    let mut c = Context::new();
    c.0 = ctx.0.clone();
    c
}

/// reads the whole context back into model form (functions keep id 0 / None: only presence)
pub fn read_back(ctx: &Context, names: &[String]) -> BTreeMap<String, Option<V>> {
    let mut out = BTreeMap::new();
    for n in names {
        let v = match ctx.get(n) {
            None => None,
            Some(_) => match ctx.get_variable(n) {
                Some(v) => Some(V::from_value(&v)),
                None => Some(V::Str("<function>".into())),
            },
        };
        out.insert(n.clone(), v);
    }
    out
}
