//! Independent exact decimal arithmetic for the oracles: arbitrary-precision unsigned
//! integers (`Big`) and sign/mantissa/scale decimals (`BigDec`).  Nothing here uses
//! rust_decimal for computing; `from_decimal` only reads mantissa, scale and sign.
use std::cmp::Ordering;

#[derive(Clone, Debug, PartialEq, Eq, Hash, Default)]
pub struct Big(Vec<u32>); // little endian, no high zero limbs

impl Big {
    pub fn zero() -> Big {
        Big(vec![])
    }
    pub fn from_u128(mut x: u128) -> Big {
        let mut v = vec![];
        while x > 0 {
            v.push(x as u32);
            x >>= 32;
        }
        Big(v)
    }
    pub fn from_u64(x: u64) -> Big {
        Big::from_u128(x as u128)
    }
    pub fn is_zero(&self) -> bool {
        self.0.is_empty()
    }
    fn trim(mut self) -> Big {
        while let Some(0) = self.0.last() {
            self.0.pop();
        }
        self
    }
    pub fn bits(&self) -> usize {
        match self.0.last() {
            None => 0,
            Some(top) => (self.0.len() - 1) * 32 + (32 - top.leading_zeros() as usize),
        }
    }
    pub fn to_u128(&self) -> Option<u128> {
        if self.0.len() > 4 {
            return None;
        }
        let mut x = 0u128;
        for (i, l) in self.0.iter().enumerate() {
            x |= (*l as u128) << (32 * i);
        }
        Some(x)
    }
    pub fn cmp(&self, o: &Big) -> Ordering {
        if self.0.len() != o.0.len() {
            return self.0.len().cmp(&o.0.len());
        }
        for i in (0..self.0.len()).rev() {
            if self.0[i] != o.0[i] {
                return self.0[i].cmp(&o.0[i]);
            }
        }
        Ordering::Equal
    }
    pub fn add(&self, o: &Big) -> Big {
        let n = self.0.len().max(o.0.len());
        let mut v = Vec::with_capacity(n + 1);
        let mut carry = 0u64;
        for i in 0..n {
            let s = *self.0.get(i).unwrap_or(&0) as u64 + *o.0.get(i).unwrap_or(&0) as u64 + carry;
            v.push(s as u32);
            carry = s >> 32;
        }
        if carry > 0 {
            v.push(carry as u32);
        }
        Big(v)
    }
    /// self - o, requires self >= o
    pub fn sub(&self, o: &Big) -> Big {
        debug_assert!(self.cmp(o) != Ordering::Less);
        let mut v = Vec::with_capacity(self.0.len());
        let mut borrow = 0i64;
        for i in 0..self.0.len() {
            let mut d = self.0[i] as i64 - *o.0.get(i).unwrap_or(&0) as i64 - borrow;
            if d < 0 {
                d += 1 << 32;
                borrow = 1;
            } else {
                borrow = 0;
            }
            v.push(d as u32);
        }
        Big(v).trim()
    }
    pub fn mul(&self, o: &Big) -> Big {
        if self.is_zero() || o.is_zero() {
            return Big::zero();
        }
        let mut v = vec![0u32; self.0.len() + o.0.len()];
        for i in 0..self.0.len() {
            let mut carry = 0u64;
            for j in 0..o.0.len() {
                let t = self.0[i] as u64 * o.0[j] as u64 + v[i + j] as u64 + carry;
                v[i + j] = t as u32;
                carry = t >> 32;
            }
            let mut k = i + o.0.len();
            while carry > 0 {
                let t = v[k] as u64 + carry;
                v[k] = t as u32;
                carry = t >> 32;
                k += 1;
            }
        }
        Big(v).trim()
    }
    pub fn mul_small(&self, m: u32) -> Big {
        self.mul(&Big::from_u64(m as u64))
    }
    pub fn divrem_small(&self, d: u32) -> (Big, u32) {
        let mut q = vec![0u32; self.0.len()];
        let mut rem = 0u64;
        for i in (0..self.0.len()).rev() {
            let cur = (rem << 32) | self.0[i] as u64;
            q[i] = (cur / d as u64) as u32;
            rem = cur % d as u64;
        }
        (Big(q).trim(), rem as u32)
    }
    fn shl1(&mut self) {
        let mut carry = 0u32;
        for l in self.0.iter_mut() {
            let n = (*l << 1) | carry;
            carry = *l >> 31;
            *l = n;
        }
        if carry > 0 {
            self.0.push(carry);
        }
    }
    fn bit(&self, i: usize) -> bool {
        self.0.get(i / 32).map(|l| (l >> (i % 32)) & 1 == 1).unwrap_or(false)
    }
    /// schoolbook binary long division
    pub fn divrem(&self, d: &Big) -> (Big, Big) {
        assert!(!d.is_zero());
        let mut q = vec![0u32; self.0.len()];
        let mut r = Big::zero();
        for i in (0..self.bits()).rev() {
            r.shl1();
            if self.bit(i) {
                if r.0.is_empty() {
                    r.0.push(1);
                } else {
                    r.0[0] |= 1;
                }
            }
            if r.cmp(d) != Ordering::Less {
                r = r.sub(d);
                q[i / 32] |= 1 << (i % 32);
            }
        }
        (Big(q).trim(), r)
    }
    pub fn pow10(n: u32) -> Big {
        let mut x = Big::from_u64(1);
        for _ in 0..n {
            x = x.mul_small(10);
        }
        x
    }
    pub fn from_dec_str(s: &str) -> Option<Big> {
        if s.is_empty() {
            return None;
        }
        let mut x = Big::zero();
        for c in s.chars() {
            let d = c.to_digit(10)?;
            x = x.mul_small(10).add(&Big::from_u64(d as u64));
        }
        Some(x)
    }
    pub fn to_dec_string(&self) -> String {
        if self.is_zero() {
            return "0".into();
        }
        let mut digits = vec![];
        let mut x = self.clone();
        while !x.is_zero() {
            let (q, r) = x.divrem_small(1_000_000_000);
            digits.push(r);
            x = q;
        }
        let mut s = format!("{}", digits.pop().unwrap());
        while let Some(d) = digits.pop() {
            s.push_str(&format!("{:09}", d));
        }
        s
    }
    pub fn max96() -> Big {
        Big::from_u128((1u128 << 96) - 1)
    }
}

#[derive(Clone, Debug)]
pub struct BigDec {
    pub neg: bool,
    pub mant: Big,
    pub scale: u32,
}

impl BigDec {
    pub fn zero() -> BigDec {
        BigDec {
            neg: false,
            mant: Big::zero(),
            scale: 0,
        }
    }
    pub fn from_i128(x: i128) -> BigDec {
        BigDec {
            neg: x < 0,
            mant: Big::from_u128(x.unsigned_abs()),
            scale: 0,
        }
    }
    pub fn from_u128(x: u128) -> BigDec {
        BigDec {
            neg: false,
            mant: Big::from_u128(x),
            scale: 0,
        }
    }
    /// `digits[.digits]`, optional leading '-'
    pub fn from_literal(s: &str) -> Option<BigDec> {
        let (neg, s) = match s.strip_prefix('-') {
            Some(r) => (true, r),
            None => (false, s),
        };
        let (ip, fp) = match s.split_once('.') {
            Some((a, b)) => (a, b),
            None => (s, ""),
        };
        if ip.is_empty() || !ip.chars().all(|c| c.is_ascii_digit()) || !fp.chars().all(|c| c.is_ascii_digit()) {
            return None;
        }
        let all = format!("{}{}", ip, fp);
        Some(BigDec {
            neg,
            mant: Big::from_dec_str(&all)?,
            scale: fp.len() as u32,
        })
    }
    pub fn from_decimal(d: &rust_decimal::Decimal) -> BigDec {
        let m = d.mantissa();
        BigDec {
            neg: d.is_sign_negative() && m != 0,
            mant: Big::from_u128(m.unsigned_abs()),
            scale: d.scale(),
        }
    }
    /// only for building inputs for the engine (value construction), never for expected results
    pub fn to_decimal(&self) -> Option<rust_decimal::Decimal> {
        if !self.fits() {
            return None;
        }
        let m = self.mant.to_u128()? as i128;
        let mut d = rust_decimal::Decimal::from_i128_with_scale(m, self.scale);
        if self.neg {
            d.set_sign_negative(true);
        }
        Some(d)
    }
    pub fn is_zero(&self) -> bool {
        self.mant.is_zero()
    }
    pub fn negated(&self) -> BigDec {
        BigDec {
            neg: !self.neg && !self.is_zero(),
            mant: self.mant.clone(),
            scale: self.scale,
        }
    }
    fn rescaled(&self, scale: u32) -> Big {
        debug_assert!(scale >= self.scale);
        self.mant.mul(&Big::pow10(scale - self.scale))
    }
    pub fn cmp_value(&self, o: &BigDec) -> Ordering {
        let sa = self.neg && !self.is_zero();
        let sb = o.neg && !o.is_zero();
        if sa != sb {
            return if sa { Ordering::Less } else { Ordering::Greater };
        }
        let s = self.scale.max(o.scale);
        let c = self.rescaled(s).cmp(&o.rescaled(s));
        if sa {
            c.reverse()
        } else {
            c
        }
    }
    pub fn eq_value(&self, o: &BigDec) -> bool {
        self.cmp_value(o) == Ordering::Equal
    }
    pub fn add(&self, o: &BigDec) -> BigDec {
        let s = self.scale.max(o.scale);
        let a = self.rescaled(s);
        let b = o.rescaled(s);
        if self.neg == o.neg {
            BigDec {
                neg: self.neg,
                mant: a.add(&b),
                scale: s,
            }
            .fix_zero()
        } else {
            match a.cmp(&b) {
                Ordering::Less => BigDec {
                    neg: o.neg,
                    mant: b.sub(&a),
                    scale: s,
                },
                _ => BigDec {
                    neg: self.neg,
                    mant: a.sub(&b),
                    scale: s,
                },
            }
            .fix_zero()
        }
    }
    fn fix_zero(mut self) -> BigDec {
        if self.mant.is_zero() {
            self.neg = false;
        }
        self
    }
    pub fn sub(&self, o: &BigDec) -> BigDec {
        self.add(&BigDec {
            neg: !o.neg,
            mant: o.mant.clone(),
            scale: o.scale,
        })
    }
    pub fn mul(&self, o: &BigDec) -> BigDec {
        BigDec {
            neg: self.neg != o.neg,
            mant: self.mant.mul(&o.mant),
            scale: self.scale + o.scale,
        }
        .fix_zero()
    }
    /// truncated remainder (sign of the dividend); `o` must be non-zero
    pub fn rem(&self, o: &BigDec) -> BigDec {
        let s = self.scale.max(o.scale);
        let a = self.rescaled(s);
        let b = o.rescaled(s);
        let (_, r) = a.divrem(&b);
        BigDec {
            neg: self.neg,
            mant: r,
            scale: s,
        }
        .fix_zero()
    }
    pub fn abs(&self) -> BigDec {
        BigDec {
            neg: false,
            mant: self.mant.clone(),
            scale: self.scale,
        }
    }
    /// representable as a 96-bit mantissa with scale <= 28, as it stands
    pub fn fits(&self) -> bool {
        self.scale <= 28 && self.mant.bits() <= 96
    }
    /// strips trailing zeros of the fraction
    pub fn stripped(&self) -> BigDec {
        let mut m = self.mant.clone();
        let mut s = self.scale;
        while s > 0 {
            let (q, r) = m.divrem_small(10);
            if r != 0 {
                break;
            }
            m = q;
            s -= 1;
        }
        BigDec {
            neg: self.neg,
            mant: m,
            scale: s,
        }
    }
    /// the exact value is representable (possibly after dropping trailing zeros)
    pub fn representable(&self) -> bool {
        self.stripped().fits()
    }
    /// |self| >= 2^96 - 1/2: no rounding can bring the value into the representable range
    /// (values between MAX and MAX + 1/2 may legitimately round to MAX and are not counted)
    pub fn magnitude_overflows(&self) -> bool {
        // 2 * |self| >= 2^97 - 1
        let twice = BigDec {
            neg: false,
            mant: self.mant.mul_small(2),
            scale: self.scale,
        };
        let limit = BigDec {
            neg: false,
            mant: Big::from_u128((1u128 << 97) - 1),
            scale: 0,
        };
        twice.cmp_value(&limit) != Ordering::Less
    }
    pub fn is_integral(&self) -> bool {
        self.stripped().scale == 0
    }
    pub fn to_i64(&self) -> Option<i64> {
        let s = self.stripped();
        if s.scale != 0 {
            return None;
        }
        let m = s.mant.to_u128()?;
        if s.neg {
            if m <= (i64::MAX as u128) + 1 {
                Some((m as i128).wrapping_neg() as i64)
            } else {
                None
            }
        } else if m <= i64::MAX as u128 {
            Some(m as i64)
        } else {
            None
        }
    }
    pub fn to_text(&self) -> String {
        let digits = self.mant.to_dec_string();
        let mut s = String::new();
        if self.neg && !self.is_zero() {
            s.push('-');
        }
        if self.scale == 0 {
            s.push_str(&digits);
        } else {
            let sc = self.scale as usize;
            let padded = if digits.len() <= sc {
                format!("{}{}", "0".repeat(sc + 1 - digits.len()), digits)
            } else {
                digits
            };
            let (a, b) = padded.split_at(padded.len() - sc);
            s.push_str(a);
            s.push('.');
            s.push_str(b);
        }
        s
    }
    /// canonical key: value with trailing zeros stripped
    pub fn value_key(&self) -> String {
        self.stripped().to_text()
    }
}

#[cfg(test)]
mod tests {
    use super::*;
    fn d(s: &str) -> BigDec {
        BigDec::from_literal(s).unwrap()
    }
    #[test]
    fn vectors() {
        assert_eq!(d("0.1").add(&d("0.2")).to_text(), "0.3");
        assert_eq!(d("1.10").to_text(), "1.10");
        assert_eq!(d("1.10").mul(&d("2.5")).to_text(), "2.750");
        assert_eq!(d("-7").rem(&d("3")).to_text(), "-1");
        assert_eq!(d("7.5").rem(&d("-2")).to_text(), "1.5");
        assert_eq!(d("1").sub(&d("1.000")).to_text(), "0.000");
        assert!(d("1.0").eq_value(&d("1")));
        assert!(d("-0.0").eq_value(&d("0")));
        assert_eq!(d("79228162514264337593543950335").add(&d("1")).to_text(), "79228162514264337593543950336");
        assert!(d("79228162514264337593543950336").magnitude_overflows());
        assert!(d("79228162514264337593543950335.5").magnitude_overflows());
        assert!(!d("79228162514264337593543950335.4").magnitude_overflows());
        assert!(!d("79228162514264337593543950335").magnitude_overflows());
        assert!(d("79228162514264337593543950335").fits());
        assert_eq!(d("123456789012345678901234567890").mant.to_dec_string(), "123456789012345678901234567890");
        let (q, r) = Big::from_dec_str("1000000000000000000000000000007").unwrap().divrem(&Big::from_dec_str("1000000000000").unwrap());
        assert_eq!(q.to_dec_string(), "1000000000000000000");
        assert_eq!(r.to_dec_string(), "7");
        assert_eq!(d("-9223372036854775808").to_i64(), Some(i64::MIN));
        assert_eq!(d("9223372036854775808").to_i64(), None);
        assert_eq!(d("3.000").to_i64(), Some(3));
        assert_eq!(d("3.5").to_i64(), None);
        assert_eq!(d("100").stripped().to_text(), "100");
        assert_eq!(d("1.500").stripped().to_text(), "1.5");
        assert!(d("2").cmp_value(&d("10")) == Ordering::Less);
        assert!(d("-2").cmp_value(&d("-10")) == Ordering::Greater);
    }
}
