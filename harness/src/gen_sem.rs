//! Type-directed generator of expression trees for the evaluator properties (C03, C04, C06,
//! C07, C15, C16).  A type plan makes most operator instances well-typed and a configurable
//! share arbitrary; leaves come from a value palette (normal or edge-of-domain).
use crate::handlers::{preset, GLOBAL_FUNCS, INFIX_OPS, POSTFIX_OPS, PREFIX_OPS};
use crate::model::{Binding, R, V};
use crate::src::Src;
use std::collections::BTreeMap;

#[derive(Clone, Copy, PartialEq, Debug)]
pub enum Ty {
    Num,
    Bool,
    Str,
    List,
    Map,
    None,
    Any,
}

pub struct SemCfg {
    pub max_depth: usize,
    /// leaves from the edge palette (range limits, shift counts, tiny fractions)
    pub edge: bool,
    /// probability (n/16) that an operator instance gets operands of arbitrary type
    pub ill_typed_16: u32,
    /// logging handlers (context functions by call and bare name, global functions, operators)
    pub observables: bool,
    /// nested assignments inside expressions
    pub assignments: bool,
}

/// the first four are bound by gen_context; the others differ from them only by case, contain the
/// `.` the tokenizer allows inside names, start with a multi-byte character, or are a keyword in the wrong case
pub const VAR_NAMES: [&str; 8] = ["v0", "v1", "v2", "v3", "V0", "v0.1", "é1", "TRUE"];
pub const FUNC_NAMES: [&str; 4] = ["t0", "t1", "t2", "t3"];
/// never bound by the generators; two of them coincide with globally registered functions
pub const UNBOUND: [&str; 4] = ["u0", "u1", "sum", "vh_g0"];

pub const NUMS: [&str; 20] = [
    "0", "1", "2", "3", "7", "10", "0.5", "1.5", "2.50", "0.1", "0.2", "100", "1.0", "3.000", "12", "255", "1024", "0.25", "4", "8",
];
pub const EDGE_NUMS: [&str; 28] = [
    "0",
    "1",
    "79228162514264337593543950335",
    "79228162514264337593543950334",
    "39614081257132168796771975168",
    "39614081257132168796771975167",
    "0.0000000000000000000000000001",
    "7.9228162514264337593543950335",
    "9223372036854775807",
    "9223372036854775808",
    "9223372036854775809",
    "4294967296",
    "62",
    "63",
    "64",
    "65",
    "2147483648",
    "18446744073709551616",
    "0.9999999999999999999999999999",
    "1.0000000000000000000000000001",
    "2",
    "0.5",
    "3.0",
    "10000000000000000",
    "281474976710656",
    "1.5",
    "0.0",
    "100",
];
// prefix / suffix related pairs on purpose, with 2-, 3- and 4-byte characters on both sides of the cut
pub const STRS: [&str; 26] = [
    "", "a", "ab", "abc", "b", "é", "日本", "aé", "x y", "2", "0.5", "-3", "日", "本", "éa", "aéb", "éé", "😀", "😀a", "a😀", "日本語", "bc", "A", " a", "a ", "e\u{301}",
];

#[derive(Clone, Debug, Default)]
pub struct SemCtx {
    pub bindings: BTreeMap<String, Binding>,
}

impl SemCtx {
    pub fn vars_of(&self, ty: Ty) -> Vec<String> {
        self.bindings
            .iter()
            .filter_map(|(k, b)| match b {
                Binding::Var(v) if ty == Ty::Any || ty_of(v) == ty => Some(k.clone()),
                _ => None,
            })
            .collect()
    }
    pub fn funcs_of(&self, ty: Ty) -> Vec<(String, u32)> {
        self.bindings
            .iter()
            .filter_map(|(k, b)| match b {
                Binding::Func(id, v) if ty == Ty::Any || ty_of(v) == ty => Some((k.clone(), *id)),
                _ => None,
            })
            .collect()
    }
}

pub fn ty_of(v: &V) -> Ty {
    match v {
        V::Num(_) => Ty::Num,
        V::Bool(_) => Ty::Bool,
        V::Str(_) => Ty::Str,
        V::List(_) => Ty::List,
        V::Map(_) => Ty::Map,
        V::None => Ty::None,
    }
}

pub fn gen_value(src: &mut Src, cfg: &SemCfg, ty: Ty, depth: usize) -> V {
    let ty = if ty == Ty::Any { *src.choose(&[Ty::Num, Ty::Bool, Ty::Str, Ty::List, Ty::None, Ty::Map]) } else { ty };
    match ty {
        Ty::Num => {
            let text = if cfg.edge && src.chance(2, 3) { *src.choose(&EDGE_NUMS) } else { *src.choose(&NUMS) };
            let v = V::num(text);
            if src.chance(1, 5) {
                if let V::Num(d) = &v {
                    return V::Num(d.negated());
                }
            }
            v
        }
        Ty::Bool => V::Bool(src.chance(1, 2)),
        Ty::Str => V::Str(src.choose(&STRS).to_string()),
        Ty::List => {
            let n = if depth >= 2 { 0 } else { src.pick(4) };
            V::List((0..n).map(|_| gen_value(src, cfg, Ty::Any, depth + 1)).collect())
        }
        Ty::Map => {
            let n = if depth >= 2 { 0 } else { src.pick(3) };
            V::Map((0..n).map(|_| (gen_value(src, cfg, Ty::Any, depth + 1), gen_value(src, cfg, Ty::Any, depth + 1))).collect())
        }
        _ => V::None,
    }
}

/// 0-4 variables of every type and, with observables, 0-3 logging context functions
pub fn gen_context(src: &mut Src, cfg: &SemCfg) -> SemCtx {
    let mut c = SemCtx::default();
    let nv = src.pick(5);
    for i in 0..nv.min(4) {
        let v = gen_value(src, cfg, Ty::Any, 0);
        c.bindings.insert(VAR_NAMES[i].to_string(), Binding::Var(v));
    }
    let nf = src.pick(4);
    for i in 0..nf {
        let t = *src.choose(&[Ty::Num, Ty::Bool, Ty::Num, Ty::Str, Ty::List]);
        let v = gen_value(src, cfg, t, 0);
        c.bindings.insert(FUNC_NAMES[i].to_string(), Binding::Func(i as u32, v));
    }
    // a context function that always returns an error (only where statements are generated)
    if cfg.assignments && src.chance(1, 4) {
        c.bindings.insert("boom".to_string(), Binding::Func(crate::model::FAILING_FUNC, V::None));
    }
    c
}

fn num_lit(src: &mut Src, cfg: &SemCfg) -> R {
    let text = if cfg.edge && src.chance(2, 3) { *src.choose(&EDGE_NUMS) } else { *src.choose(&NUMS) };
    let r = R::Num(text.to_string());
    if src.chance(1, 6) {
        R::Prefix("-".into(), Box::new(r))
    } else {
        r
    }
}

fn value_to_r(v: &V) -> R {
    match v {
        V::Num(d) => {
            let pos = R::Num(d.abs().to_text());
            if d.neg && !d.is_zero() {
                R::Prefix("-".into(), Box::new(pos))
            } else {
                pos
            }
        }
        V::Str(s) => R::Str(s.clone(), if s.contains('"') { '\'' } else { '"' }),
        V::Bool(b) => R::Bool(if *b { "true".into() } else { "false".into() }),
        V::List(l) => R::List(l.iter().map(value_to_r).collect()),
        V::Map(m) => R::Map(m.iter().map(|(k, v)| (value_to_r(k), value_to_r(v))).collect()),
        V::None => R::Ref(UNBOUND[0].to_string()),
    }
}

fn leaf(src: &mut Src, cfg: &SemCfg, sc: &SemCtx, ty: Ty) -> R {
    let ty = if ty == Ty::Any { *src.choose(&[Ty::Num, Ty::Bool, Ty::Str, Ty::Num, Ty::List, Ty::None, Ty::Map]) } else { ty };
    // a bound variable or context function of that type, when there is one
    let vars = sc.vars_of(ty);
    let funcs = sc.funcs_of(ty);
    let k = src.weighted(&[6, if vars.is_empty() { 0 } else { 3 }, if funcs.is_empty() { 0 } else { 3 }]);
    if k == 1 {
        return R::Ref(src.choose(&vars).clone());
    }
    if k == 2 {
        let (name, _) = src.choose(&funcs).clone();
        // by bare name or by call
        return if src.chance(1, 2) { R::Ref(name) } else { R::Call(name, vec![]) };
    }
    match ty {
        Ty::Num => num_lit(src, cfg),
        Ty::Bool => R::Bool(src.choose(&["true", "false", "True", "False"]).to_string()),
        Ty::Str => {
            let s = *src.choose(&STRS);
            R::Str(s.to_string(), if src.chance(1, 2) { '"' } else { '\'' })
        }
        Ty::List => R::List(vec![]),
        Ty::Map => R::Map(vec![]),
        _ => R::Ref(src.choose(&UNBOUND).to_string()),
    }
}

fn bx(r: R) -> Box<R> {
    Box::new(r)
}

/// type wanted for an operand: the right one, or with probability ill/16 anything
fn plan(src: &mut Src, cfg: &SemCfg, want: Ty) -> Ty {
    if cfg.ill_typed_16 > 0 && src.chance(cfg.ill_typed_16, 16) {
        Ty::Any
    } else {
        want
    }
}

pub fn gen_expr(src: &mut Src, cfg: &SemCfg, sc: &SemCtx, ty: Ty, depth: usize) -> R {
    if depth >= cfg.max_depth || src.exhausted() {
        return leaf(src, cfg, sc, ty);
    }
    let ty = if ty == Ty::Any { *src.choose(&[Ty::Num, Ty::Bool, Ty::Num, Ty::Bool, Ty::Str, Ty::List, Ty::Map, Ty::None]) } else { ty };
    let d = depth + 1;
    let sub = |src: &mut Src, t: Ty| gen_expr(src, cfg, sc, t, d);
    // choice 0 is always a leaf
    match ty {
        Ty::Num => match src.weighted(&[4, 6, 2, 2, 2, 2, 2, if cfg.observables { 9 } else { 0 }]) {
            0 => leaf(src, cfg, sc, Ty::Num),
            1 => {
                let op = *src.choose(&["+", "-", "*", "/", "%", "+", "-", "*"]);
                let (a, b) = (plan(src, cfg, Ty::Num), plan(src, cfg, Ty::Num));
                let l = sub(src, a);
                // divisors: mostly values that divide exactly
                let r = if (op == "/" || op == "%") && src.chance(3, 4) {
                    R::Num(src.choose(&["2", "4", "5", "0.5", "10", "8", "1", "0", "3", "0.25"]).to_string())
                } else {
                    sub(src, b)
                };
                R::Infix(op.into(), bx(l), bx(r))
            }
            2 => {
                let op = *src.choose(&["|", "^", "&", "<<", ">>"]);
                let pl = plan(src, cfg, Ty::Num);
                let l = if src.chance(3, 4) { int_leaf(src, cfg) } else { sub(src, pl) };
                let r = if op == "<<" || op == ">>" {
                    if src.chance(3, 4) {
                        R::Num(src.choose(&["0", "1", "3", "62", "63", "64", "65", "2.0"]).to_string())
                    } else {
                        sub(src, Ty::Num)
                    }
                } else if src.chance(3, 4) {
                    int_leaf(src, cfg)
                } else {
                    let pr = plan(src, cfg, Ty::Num);
                    sub(src, pr)
                };
                R::Infix(op.into(), bx(l), bx(r))
            }
            3 => {
                let t = plan(src, cfg, Ty::Num);
                R::Prefix(src.choose(&["-", "+"]).to_string(), bx(sub(src, t)))
            }
            4 => {
                let t = plan(src, cfg, Ty::Num);
                R::Postfix(bx(sub(src, t)), src.choose(&["++", "--"]).to_string())
            }
            5 => {
                let f = *src.choose(&["min", "max", "sum", "mul"]);
                let n = src.weighted(&[1, 3, 4, 2]);
                let args = (0..n)
                    .map(|_| {
                        let t = plan(src, cfg, Ty::Num);
                        sub(src, t)
                    })
                    .collect();
                R::Call(f.into(), args)
            }
            6 => cond(src, cfg, sc, Ty::Num, d),
            _ => observable(src, cfg, sc, Ty::Num, d),
        },
        Ty::Bool => match src.weighted(&[3, 4, 3, 3, 2, 2, 2, 2, if cfg.observables { 9 } else { 0 }]) {
            0 => leaf(src, cfg, sc, Ty::Bool),
            1 => {
                let op = *src.choose(&["<", "<=", ">", ">="]);
                let (a, b) = (plan(src, cfg, Ty::Num), plan(src, cfg, Ty::Num));
                R::Infix(op.into(), bx(sub(src, a)), bx(sub(src, b)))
            }
            2 => {
                let op = *src.choose(&["==", "!="]);
                // equal-looking pairs are interesting: same type on both sides most of the time
                let t = *src.choose(&[Ty::Num, Ty::Num, Ty::Str, Ty::Bool, Ty::List, Ty::None, Ty::Map]);
                let t2 = if src.chance(3, 4) { t } else { Ty::Any };
                let l = sub(src, t);
                let r = if src.chance(1, 4) { l.clone() } else { sub(src, t2) };
                if src.chance(1, 6) {
                    R::NotInfix(op.into(), bx(l), bx(r))
                } else {
                    R::Infix(op.into(), bx(l), bx(r))
                }
            }
            3 => {
                let op = *src.choose(&["&&", "||"]);
                let (a, b) = (plan(src, cfg, Ty::Bool), plan(src, cfg, Ty::Bool));
                R::Infix(op.into(), bx(sub(src, a)), bx(sub(src, b)))
            }
            4 => {
                let t = plan(src, cfg, Ty::Bool);
                R::Prefix(src.choose(&["!", "not"]).to_string(), bx(sub(src, t)))
            }
            5 => {
                // membership: the probe, and a list that may contain an equal-valued element
                let pt = *src.choose(&[Ty::Num, Ty::Str, Ty::Bool, Ty::None]);
                let probe = sub(src, pt);
                let n = src.pick(4);
                let mut items: Vec<R> = (0..n).map(|_| sub(src, Ty::Any)).collect();
                if src.chance(1, 2) {
                    let pos = src.pick(items.len() + 1);
                    items.insert(pos, equalish(src, &probe));
                }
                let lt = plan(src, cfg, Ty::List);
                let list = if src.chance(1, 8) { sub(src, lt) } else { R::List(items) };
                if src.chance(1, 3) {
                    R::NotInfix("in".into(), bx(probe), bx(list))
                } else {
                    R::Infix("in".into(), bx(probe), bx(list))
                }
            }
            6 => {
                let op = *src.choose(&["beginWith", "endWith"]);
                let (a, b) = (plan(src, cfg, Ty::Str), plan(src, cfg, Ty::Str));
                R::Infix(op.into(), bx(sub(src, a)), bx(sub(src, b)))
            }
            7 => {
                if src.chance(1, 2) {
                    let op = *src.choose(&["AND", "OR"]);
                    let n = src.pick(4);
                    let items = (0..n)
                        .map(|_| {
                            let t = plan(src, cfg, Ty::Bool);
                            sub(src, t)
                        })
                        .collect();
                    R::Prefix(op.into(), bx(R::List(items)))
                } else {
                    cond(src, cfg, sc, Ty::Bool, d)
                }
            }
            _ => observable(src, cfg, sc, Ty::Bool, d),
        },
        Ty::Str => match src.weighted(&[4, 2, if cfg.observables { 2 } else { 0 }]) {
            0 => leaf(src, cfg, sc, Ty::Str),
            1 => cond(src, cfg, sc, Ty::Str, d),
            _ => observable(src, cfg, sc, Ty::Str, d),
        },
        Ty::List => match src.weighted(&[2, 5, 1, if cfg.observables { 2 } else { 0 }]) {
            0 => leaf(src, cfg, sc, Ty::List),
            1 => {
                let n = src.pick(5);
                R::List((0..n).map(|_| sub(src, Ty::Any)).collect())
            }
            2 => cond(src, cfg, sc, Ty::List, d),
            _ => observable(src, cfg, sc, Ty::List, d),
        },
        Ty::Map => {
            let n = src.pick(4);
            let mut entries: Vec<(R, R)> = (0..n).map(|_| (sub(src, Ty::Any), sub(src, Ty::Any))).collect();
            // a repeated key expression: both entries are evaluated and kept, in source order
            if !entries.is_empty() && src.chance(1, 4) {
                let k = entries[src.pick(entries.len())].0.clone();
                let v = sub(src, Ty::Any);
                let pos = src.pick(entries.len() + 1);
                entries.insert(pos, (k, v));
            }
            R::Map(entries)
        }
        _ => {
            if cfg.assignments && src.chance(1, 2) {
                let name = src.choose(&VAR_NAMES).to_string();
                let op = if src.chance(2, 3) { "=" } else { *src.choose(&["+=", "-=", "*=", "|="]) };
                R::Infix(op.into(), bx(R::Ref(name)), bx(sub(src, Ty::Num)))
            } else {
                leaf(src, cfg, sc, Ty::None)
            }
        }
    }
}

fn int_leaf(src: &mut Src, cfg: &SemCfg) -> R {
    let pool: &[&str] = if cfg.edge {
        &["0", "1", "9223372036854775807", "9223372036854775808", "4294967296", "255", "3.0", "2.5", "18446744073709551616", "7"]
    } else {
        &["0", "1", "2", "3", "5", "6", "12", "255", "1024", "3.0", "7"]
    };
    let r = R::Num(src.choose(pool).to_string());
    if src.chance(1, 5) {
        R::Prefix("-".into(), bx(r))
    } else {
        r
    }
}

/// something equal in value to `probe` but possibly written differently (1 vs 1.0)
fn equalish(src: &mut Src, probe: &R) -> R {
    match probe {
        R::Num(t) if src.chance(1, 2) => {
            if t.contains('.') {
                R::Num(format!("{}0", t))
            } else {
                R::Num(format!("{}.0", t))
            }
        }
        other => other.clone(),
    }
}

fn cond(src: &mut Src, cfg: &SemCfg, sc: &SemCtx, ty: Ty, d: usize) -> R {
    let ct = plan(src, cfg, Ty::Bool);
    let c = gen_expr(src, cfg, sc, ct, d);
    // `c ? c : b`: condition and selected branch are two separate subexpressions, written alike
    let a = if ty == Ty::Bool && src.chance(1, 6) { c.clone() } else { gen_expr(src, cfg, sc, ty, d) };
    // the unselected branch may be anything, including something that would fail
    let bt = if src.chance(1, 3) { Ty::Any } else { ty };
    let b = gen_expr(src, cfg, sc, bt, d);
    R::Cond(bx(c), bx(a), bx(b))
}

/// a call / operator application whose handler logs: picks one whose preset has type `ty`
fn observable(src: &mut Src, cfg: &SemCfg, sc: &SemCtx, ty: Ty, d: usize) -> R {
    let mut opts: Vec<(u8, String)> = vec![];
    for (n, id) in GLOBAL_FUNCS {
        if ty_of(&preset(id)) == ty {
            opts.push((0, n.to_string()));
        }
    }
    for (n, id) in PREFIX_OPS {
        if ty_of(&preset(id)) == ty {
            opts.push((1, n.to_string()));
        }
    }
    for (n, id) in INFIX_OPS {
        if ty_of(&preset(id)) == ty {
            opts.push((2, n.to_string()));
        }
    }
    for (n, id) in POSTFIX_OPS {
        if ty_of(&preset(id)) == ty {
            opts.push((3, n.to_string()));
        }
    }
    for (n, _) in sc.funcs_of(ty) {
        opts.push((4, n));
    }
    if opts.is_empty() {
        return leaf(src, cfg, sc, ty);
    }
    let (kind, name) = src.choose(&opts).clone();
    let arg = |src: &mut Src| gen_expr(src, cfg, sc, Ty::Any, d);
    // a call of a function that nobody provides (a name never registered, or a registered name in
    // another case): its arguments run, then the call fails
    if src.chance(1, 16) {
        let name = *src.choose(&["vh_nofn", "VH_G0", "SUM", "Vh_g1", "T0"]);
        let n = src.pick(3);
        return R::Call(name.into(), (0..n).map(|_| arg(src)).collect());
    }
    match kind {
        0 | 4 => {
            let n = src.pick(4);
            R::Call(name, (0..n).map(|_| arg(src)).collect())
        }
        1 => R::Prefix(name, bx(arg(src))),
        2 => {
            let l = arg(src);
            let r = arg(src);
            R::Infix(name, bx(l), bx(r))
        }
        _ => R::Postfix(bx(arg(src)), name),
    }
}

pub fn count_nodes(r: &R) -> usize {
    1 + match r {
        R::Call(_, a) | R::List(a) | R::Stmts(a) => a.iter().map(count_nodes).sum(),
        R::Map(m) => m.iter().map(|(k, v)| count_nodes(k) + count_nodes(v)).sum(),
        R::Prefix(_, x) | R::Postfix(x, _) => count_nodes(x),
        R::Infix(_, l, r) | R::NotInfix(_, l, r) => count_nodes(l) + count_nodes(r),
        R::Cond(c, a, b) => count_nodes(c) + count_nodes(a) + count_nodes(b),
        _ => 0,
    }
}

/// operator / function names in preorder (for distinctness keys)
pub fn op_key(r: &R, out: &mut String) {
    match r {
        R::Num(_) => out.push('n'),
        R::Str(..) => out.push('s'),
        R::Bool(_) => out.push('b'),
        R::Ref(_) => out.push('r'),
        R::Call(n, a) => {
            out.push_str(n);
            out.push('(');
            a.iter().for_each(|x| op_key(x, out));
            out.push(')');
        }
        R::List(a) => {
            out.push('[');
            a.iter().for_each(|x| op_key(x, out));
            out.push(']');
        }
        R::Stmts(a) => a.iter().for_each(|x| {
            op_key(x, out);
            out.push(';')
        }),
        R::Map(m) => {
            out.push('{');
            m.iter().for_each(|(k, v)| {
                op_key(k, out);
                op_key(v, out)
            });
            out.push('}');
        }
        R::Prefix(op, x) => {
            out.push_str(op);
            op_key(x, out)
        }
        R::Postfix(x, op) => {
            op_key(x, out);
            out.push_str(op)
        }
        R::Infix(op, l, rr) => {
            out.push('(');
            op_key(l, out);
            out.push_str(op);
            op_key(rr, out);
            out.push(')');
        }
        R::NotInfix(op, l, rr) => {
            out.push('(');
            op_key(l, out);
            out.push_str("not");
            out.push_str(op);
            op_key(rr, out);
            out.push(')');
        }
        R::Cond(c, a, b) => {
            out.push('(');
            op_key(c, out);
            out.push('?');
            op_key(a, out);
            out.push(':');
            op_key(b, out);
            out.push(')');
        }
    }
}

pub fn ctx_json(sc: &SemCtx) -> serde_json::Value {
    let mut m = serde_json::Map::new();
    for (k, b) in &sc.bindings {
        m.insert(
            k.clone(),
            match b {
                Binding::Var(v) => serde_json::json!({"var": v.to_json()}),
                Binding::Func(id, v) => serde_json::json!({"func": id, "returns": v.to_json()}),
            },
        );
    }
    serde_json::Value::Object(m)
}

pub fn ctx_from_json(j: &serde_json::Value) -> SemCtx {
    let mut sc = SemCtx::default();
    if let Some(o) = j.as_object() {
        for (k, b) in o {
            if let Some(v) = b.get("var") {
                sc.bindings.insert(k.clone(), Binding::Var(V::from_json(v).unwrap_or(V::None)));
            } else {
                let id = b["func"].as_u64().unwrap_or(0) as u32;
                sc.bindings.insert(k.clone(), Binding::Func(id, V::from_json(&b["returns"]).unwrap_or(V::None)));
            }
        }
    }
    sc
}

#[allow(dead_code)]
pub fn literal_of(v: &V) -> R {
    value_to_r(v)
}

/// statement sequences for the assignment / order / containment properties
pub fn gen_statements(src: &mut Src, cfg: &SemCfg, sc: &SemCtx, max: usize, failing: bool, fn_targets: bool) -> Vec<R> {
    let n = 1 + src.pick(max);
    let mut out = vec![];
    for _ in 0..n {
        let target = |src: &mut Src| -> String {
            if fn_targets && src.chance(1, 8) {
                let mut pool: Vec<String> = sc.funcs_of(Ty::Any).into_iter().map(|x| x.0).collect();
                pool.extend(UNBOUND.iter().map(|s| s.to_string()));
                src.choose(&pool).clone()
            } else {
                src.choose(&VAR_NAMES).to_string()
            }
        };
        let kind = src.weighted(&[4, 4, 1, 2, 2, if failing { 1 } else { 0 }, if cfg.observables { 1 } else { 0 }]);
        let st = match kind {
            0 => {
                let t = target(src);
                let e = gen_expr(src, cfg, sc, Ty::Any, 1);
                R::Infix("=".into(), bx(R::Ref(t)), bx(e))
            }
            1 => {
                let t = target(src);
                let op = *src.choose(&["+=", "-=", "*=", "/=", "%=", "<<=", ">>=", "&=", "^=", "|="]);
                let e = if matches!(op, "<<=" | ">>=" | "&=" | "^=" | "|=") {
                    if src.chance(3, 4) {
                        R::Num(src.choose(&["0", "1", "2", "3", "7", "63", "64", "2.0"]).to_string())
                    } else {
                        gen_expr(src, cfg, sc, Ty::Num, 2)
                    }
                } else if (op == "/=" || op == "%=") && src.chance(3, 4) {
                    R::Num(src.choose(&["2", "4", "5", "0.5", "10", "1", "0", "8"]).to_string())
                } else {
                    gen_expr(src, cfg, sc, Ty::Num, 2)
                };
                R::Infix(op.into(), bx(R::Ref(t)), bx(e))
            }
            2 => R::Ref(target(src)),
            3 => gen_expr(src, cfg, sc, Ty::Any, 1),
            4 => {
                // nested / chained assignments
                let (a, b) = (target(src), target(src));
                const ASSIGN_OPS: [&str; 11] = ["=", "+=", "-=", "*=", "/=", "%=", "<<=", ">>=", "&=", "^=", "|="];
                match src.pick(6) {
                    4 | 5 => {
                        // `a OP1 b OP2 e` for every pair of the eleven assignment operators (written
                        // flat: the chain groups to the right); b is rebound before `a OP1 <none>`
                        // fails or, for `=`, binds a to the inner assignment's value
                        let (op1, op2) = (*src.choose(&ASSIGN_OPS), *src.choose(&ASSIGN_OPS));
                        let e = R::Num(src.choose(&["1", "2", "3", "0"]).to_string());
                        R::Infix(op1.into(), bx(R::Ref(a)), bx(R::Infix(op2.into(), bx(R::Ref(b)), bx(e))))
                    }
                    0 => {
                        let e = gen_expr(src, cfg, sc, Ty::Any, 2);
                        R::Infix("=".into(), bx(R::Ref(a)), bx(R::Infix("=".into(), bx(R::Ref(b)), bx(e))))
                    }
                    1 => R::Infix("=".into(), bx(R::Ref(a)), bx(R::Infix("+=".into(), bx(R::Ref(b)), bx(R::Num("1".into()))))),
                    2 => {
                        let e = gen_expr(src, cfg, sc, Ty::Any, 2);
                        R::Infix("=".into(), bx(R::Ref(a.clone())), bx(R::Infix("=".into(), bx(R::Ref(a)), bx(e))))
                    }
                    _ => {
                        // x op= something that itself rebinds x and still yields a number
                        let inner = R::Infix("=".into(), bx(R::Ref(a.clone())), bx(R::Num(src.choose(&["5", "2", "0.5"]).to_string())));
                        let rhs = R::Cond(bx(R::Infix("==".into(), bx(inner), bx(R::Ref(UNBOUND[1].to_string())))), bx(R::Num("3".into())), bx(R::Num("4".into())));
                        R::Infix(src.choose(&["+=", "*=", "-="]).to_string(), bx(R::Ref(a)), bx(rhs))
                    }
                }
            }
            5 => match src.pick(12) {
                10 | 11 => {
                    // the target is written as a call without arguments of a name that IS callable
                    // (a context function, a registered function): still not a name
                    let mut pool: Vec<String> = sc.funcs_of(Ty::Any).into_iter().map(|x| x.0).collect();
                    pool.push("sum".to_string());
                    pool.push("mul".to_string());
                    let f = src.choose(&pool).clone();
                    let op = *src.choose(&["=", "+=", "-=", "|="]);
                    R::Infix(op.into(), bx(R::Call(f, vec![])), bx(R::Num(src.choose(&["5", "1", "2"]).to_string())))
                }
                7 => R::Call("nofn".into(), vec![R::Infix("=".into(), bx(R::Ref(target(src))), bx(R::Num("1".into())))]),
                8 => {
                    // the call's own name is rebound by one of its arguments
                    let f = sc.funcs_of(Ty::Any).into_iter().map(|x| x.0).next().unwrap_or_else(|| "min".to_string());
                    R::Infix("=".into(), bx(R::Ref(target(src))), bx(R::Call(f.clone(), vec![R::Infix("=".into(), bx(R::Ref(f)), bx(R::Num("3".into())))])))
                }
                9 => R::Call("min".into(), vec![R::Infix("=".into(), bx(R::Ref(target(src))), bx(R::Num("2".into()))), R::Str("x".into(), '"')]),
                0 => R::Infix("=".into(), bx(R::Ref(target(src))), bx(R::Infix("+".into(), bx(R::Num("1".into())), bx(R::Bool("true".into()))))),
                1 => R::Infix("=".into(), bx(R::Ref(target(src))), bx(R::Infix("/".into(), bx(R::Num("1".into())), bx(R::Num("0".into()))))),
                2 => R::Call("nofn".into(), vec![R::Num("1".into())]),
                3 => R::Infix("=".into(), bx(R::Num("3".into())), bx(R::Num("4".into()))),
                4 => R::Infix("=".into(), bx(R::Call("min".into(), vec![R::Num("1".into())])), bx(R::Num("4".into()))),
                5 => R::Infix("+=".into(), bx(R::List(vec![R::Ref(VAR_NAMES[0].into())])), bx(R::Num("4".into()))),
                _ => R::Infix("+=".into(), bx(R::Ref(target(src))), bx(R::Str("s".into(), '"'))),
            },
            _ => {
                let t = src.choose(&VAR_NAMES).to_string();
                let e = gen_expr(src, cfg, sc, Ty::Any, 2);
                R::Infix("vh_set0".into(), bx(R::Ref(t)), bx(e))
            }
        };
        out.push(st);
    }
    out
}
