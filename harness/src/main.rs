fn main() {
    vh::cli_main()
}
