//! Flat program generator: token sequences `operand (op operand)*` with randomly placed
//! parentheses, prefix/postfix operators, `not OP`, conditionals, calls, lists, maps and
//! statement chains.  Grouping is NOT decided here — the reference parser decides it.
use crate::src::Src;
use crate::syntax::{OpTable, Tok, TK};

pub const NAMES: [&str; 16] = [
    "a", "b", "c", "x", "y", "foo", "bar_1", "a.b", "_t", "é1", "ñ", "trueish", "notx", "inside", "in1", "ANDY",
];
pub const FUNCS: [&str; 8] = ["f", "g", "min", "sum", "foo", "h.k", "_f", "max"];
pub const NUMS: [&str; 12] = [
    "1", "2", "3", "0", "3.5", "0.10", "12345678901234567890", "007", "10", "0.0000000000000000000000000001", "9223372036854775808", "9999999999999999999",
];
// the last two end in a backslash: the language has no escapes, so the quote after it closes the literal
pub const STRS: [&str; 14] = [
    "'a'", "\"b c\"", "\"it's\"", "'say \"x\"'", "\"\"", "'é'", "\"(\"", "'a+b'", "\" ? : \"", "'x\ty\nz'", "\"]\"", "'not in'", "'C:\\'", "\"\\\"",
];
pub const BOOLS: [&str; 4] = ["true", "false", "True", "False"];

pub struct SynCfg<'a> {
    pub tab: &'a OpTable,
    pub infix: Vec<String>,
    pub prefix: Vec<String>,
    pub postfix: Vec<String>,
    pub max_depth: usize,
    pub max_operands: usize,
    pub statements: bool,
    /// extra function names / reference names to use often (registered or context-bound ones)
    pub extra_funcs: Vec<String>,
    pub extra_names: Vec<String>,
}

impl<'a> SynCfg<'a> {
    pub fn new(tab: &'a OpTable) -> Self {
        // order the infix operators so that neighbouring indices are on different levels:
        // the generator then mixes levels even when the choice words are small
        let mut infix: Vec<(i64, String)> = tab.infix.iter().map(|(k, v)| (v.0, k.clone())).collect();
        infix.sort();
        let mut levels: Vec<Vec<String>> = vec![];
        let mut last = i64::MIN;
        for (p, n) in infix {
            if p != last {
                levels.push(vec![]);
                last = p;
            }
            levels.last_mut().unwrap().push(n);
        }
        let mut mixed = vec![];
        let mut i = 0;
        loop {
            let mut any = false;
            for l in &levels {
                if let Some(n) = l.get(i) {
                    mixed.push(n.clone());
                    any = true;
                }
            }
            if !any {
                break;
            }
            i += 1;
        }
        SynCfg {
            tab,
            infix: mixed,
            prefix: tab.prefix.iter().cloned().collect(),
            postfix: tab.postfix.iter().cloned().collect(),
            max_depth: 4,
            max_operands: 12,
            statements: true,
            extra_funcs: vec![],
            extra_names: vec![],
        }
    }
}

fn t(kind: TK, text: &str) -> Tok {
    Tok::new(kind, text)
}

pub fn gen_program(src: &mut Src, cfg: &SynCfg) -> Vec<Tok> {
    gen_program_x(src, cfg).0
}

/// also reports whether a `;` between two statements was omitted
pub fn gen_program_x(src: &mut Src, cfg: &SynCfg) -> (Vec<Tok>, bool) {
    let mut out = vec![];
    let mut omitted = false;
    let n = if cfg.statements { src.weighted(&[20, 4, 2, 1]) + 1 } else { 1 };
    for i in 0..n {
        if i > 0 {
            // the `;` may be omitted when the next statement cannot continue the previous one
            let omit = src.chance(1, 8);
            let mark = out.len();
            gen_expr(src, cfg, 0, &mut out);
            let first: &Tok = &out[mark];
            let safe = matches!(first.kind, TK::Num | TK::Str | TK::Bool | TK::Ref | TK::Func) || first.is_delim("[") || first.is_delim("{");
            if !(omit && safe) {
                out.insert(mark, t(TK::Semi, ";"));
            } else {
                omitted = true;
            }
        } else {
            gen_expr(src, cfg, 0, &mut out);
        }
    }
    if cfg.statements && src.chance(1, 16) {
        out.push(t(TK::Semi, ";"));
    }
    (out, omitted)
}

pub fn gen_expr(src: &mut Src, cfg: &SynCfg, depth: usize, out: &mut Vec<Tok>) {
    gen_seq(src, cfg, depth, out);
    let den = 3 + 2 * depth as u32;
    if depth < cfg.max_depth && src.chance(1, den) {
        out.push(t(TK::Op, "?"));
        gen_expr(src, cfg, depth + 1, out);
        out.push(t(TK::Op, ":"));
        gen_expr(src, cfg, depth + 1, out);
    }
}

fn gen_seq(src: &mut Src, cfg: &SynCfg, depth: usize, out: &mut Vec<Tok>) {
    gen_operand(src, cfg, depth, out);
    let max_more = if depth == 0 { cfg.max_operands - 1 } else { (cfg.max_operands / (depth + 1)).max(1) };
    // geometric number of further operands
    let mut more = 0;
    while more < max_more && src.chance(3, 5) {
        more += 1;
    }
    for _ in 0..more {
        if src.chance(1, 6) {
            out.push(t(TK::Op, "not"));
        }
        let op = src.choose(&cfg.infix).clone();
        out.push(t(TK::Op, &op));
        gen_operand(src, cfg, depth, out);
    }
}

fn gen_operand(src: &mut Src, cfg: &SynCfg, depth: usize, out: &mut Vec<Tok>) {
    let npre = src.weighted(&[12, 3, 1, 1]);
    for _ in 0..npre {
        let op = src.choose(&cfg.prefix).clone();
        out.push(t(TK::Op, &op));
    }
    gen_atom(src, cfg, depth, out);
    if !cfg.postfix.is_empty() && src.chance(1, 8) {
        let op = src.choose(&cfg.postfix).clone();
        out.push(t(TK::Op, &op));
    }
}

fn gen_atom(src: &mut Src, cfg: &SynCfg, depth: usize, out: &mut Vec<Tok>) {
    let deep = depth >= cfg.max_depth;
    // leaf kinds first (choice 0 = the simplest)
    let k = if deep { src.weighted(&[5, 4, 2, 2]) } else { src.weighted(&[5, 4, 2, 2, 3, 2, 2, 4]) };
    match k {
        0 => out.push(t(TK::Num, *src.choose(&NUMS))),
        1 => {
            if !cfg.extra_names.is_empty() && src.chance(1, 2) {
                let n = src.choose(&cfg.extra_names).clone();
                out.push(t(TK::Ref, &n));
            } else {
                out.push(t(TK::Ref, *src.choose(&NAMES)));
            }
        }
        2 => out.push(t(TK::Bool, *src.choose(&BOOLS))),
        3 => out.push(t(TK::Str, *src.choose(&STRS))),
        4 => {
            if !cfg.extra_funcs.is_empty() && src.chance(2, 3) {
                let n = src.choose(&cfg.extra_funcs).clone();
                out.push(t(TK::Func, &n));
            } else {
                out.push(t(TK::Func, *src.choose(&FUNCS)));
            }
            out.push(t(TK::Delim, "("));
            let n = src.weighted(&[2, 4, 3, 1]);
            for i in 0..n {
                if i > 0 {
                    out.push(t(TK::Comma, ","));
                }
                gen_expr(src, cfg, depth + 1, out);
            }
            out.push(t(TK::Delim, ")"));
        }
        5 => {
            out.push(t(TK::Delim, "["));
            let n = src.weighted(&[2, 4, 3, 1]);
            for i in 0..n {
                if i > 0 {
                    out.push(t(TK::Comma, ","));
                }
                gen_expr(src, cfg, depth + 1, out);
            }
            if n > 0 && src.chance(1, 8) {
                out.push(t(TK::Comma, ","));
            }
            out.push(t(TK::Delim, "]"));
        }
        6 => {
            out.push(t(TK::Delim, "{"));
            let n = src.weighted(&[2, 4, 2]);
            for i in 0..n {
                if i > 0 {
                    out.push(t(TK::Comma, ","));
                }
                gen_expr(src, cfg, depth + 1, out);
                out.push(t(TK::Op, ":"));
                gen_expr(src, cfg, depth + 1, out);
            }
            if n > 0 && src.chance(1, 8) {
                out.push(t(TK::Comma, ","));
            }
            out.push(t(TK::Delim, "}"));
        }
        _ => {
            out.push(t(TK::Delim, "("));
            gen_expr(src, cfg, depth + 1, out);
            out.push(t(TK::Delim, ")"));
        }
    }
}

pub fn join(toks: &[Tok]) -> String {
    toks.iter().map(|t| t.text.as_str()).collect::<Vec<_>>().join(" ")
}
