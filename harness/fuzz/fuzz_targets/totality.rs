#![no_main]
// C01: any UTF-8 string goes through parse / execute / expr / describe; libFuzzer's panic hook
// turns any panic into a crash, ASan/stack overflow likewise.
use libfuzzer_sys::fuzz_target;

fuzz_target!(|data: &[u8]| {
    if let Ok(s) = std::str::from_utf8(data) {
        let _ = vh::props::c01::total_check(s);
    }
});
