#![no_main]
// C12: every accepted input renders with expr() to text that re-parses to the same tree.
use libfuzzer_sys::fuzz_target;

fuzz_target!(|data: &[u8]| {
    if let Ok(s) = std::str::from_utf8(data) {
        // the property speaks of programs whose names are not operator words
        if !vh::props::c12::names_avoid_operator_words(s) {
            return;
        }
        let mut st = vh::runner::Stats::new();
        if let Err(f) = vh::props::c12::check_text(s, "", false, &mut st) {
            panic!("VIOLATION {} :: {}", f.sig, f.detail);
        }
    }
});
