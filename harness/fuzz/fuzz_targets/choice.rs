#![no_main]
// Coverage-guided driving of a property's own generator: the bytes are the choice vector that
// the property decodes into a case (VH_FUZZ_PROP selects the property; in-process ones only).
use libfuzzer_sys::fuzz_target;
use std::sync::OnceLock;
use vh::runner::{load_known, Env, Prop, Stats, Tier, PROFILE};

static PROP: OnceLock<(&'static Prop, Env)> = OnceLock::new();

fuzz_target!(|data: &[u8]| {
    let (prop, env) = PROP.get_or_init(|| {
        let id = std::env::var("VH_FUZZ_PROP").unwrap_or_else(|_| "C02".into());
        let prop = vh::props::all().into_iter().find(|p| p.id == id).expect("known property");
        (prop.setup)();
        let env = Env {
            id: prop.id,
            tier: Tier::Quick,
            seed: 0,
            shard: 0,
            of: 1,
            exe: std::path::PathBuf::from("/verif/out/target/release/vh"),
            known: load_known(prop.id),
            strict: false,
            profile: PROFILE,
            out_dir: std::path::PathBuf::from("/verif/out/run/fuzz"),
        };
        (prop, env)
    });
    let choices: Vec<u32> = data.chunks_exact(4).map(|c| u32::from_le_bytes([c[0], c[1], c[2], c[3]])).collect();
    let mut src = vh::src::Src::new(&choices);
    let mut st = Stats::new();
    if let Err(f) = (prop.case)(&mut src, &mut st, env) {
        if !env.is_known(&f.sig) {
            panic!("VIOLATION {} :: {}", f.sig, f.detail);
        }
    }
});
