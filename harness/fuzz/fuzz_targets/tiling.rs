#![no_main]
// C10: span invariants and agreement with the reference tokenizer on any UTF-8 string.
use libfuzzer_sys::fuzz_target;
use vh::syntax::OpTable;

fuzz_target!(|data: &[u8]| {
    if let Ok(s) = std::str::from_utf8(data) {
        let tab = OpTable::builtin();
        let (toks, err) = match vh::props::c10::hook_tokens(s) {
            Ok(x) => x,
            Err(p) => panic!("VIOLATION tokenizer panicked: {}", p),
        };
        if let Err(f) = vh::props::c10::check_stream(s, &toks, &err, &tab, &serde_json::Value::Null) {
            panic!("VIOLATION {} :: {}", f.sig, f.detail);
        }
    }
});
