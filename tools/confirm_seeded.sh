#!/bin/bash
# Confirms one seeded change in a scratch worktree of /repo (HEAD):
#   patch applies; existing suite passes with it; demo fails with it; demo passes without it.
# usage: tools/confirm_seeded.sh <dir with patch.diff demo.rs meta.json>
set -u
D=$(readlink -f "$1")
WT=/tmp/confirm-wt-$$
export CARGO_TARGET_DIR=/tmp/confirm-target
export CARGO_NET_OFFLINE=true
HOOKS=$(python3 -c "import json,sys; print('1' if json.load(open('$D/meta.json')).get('demo_needs_hooks') else '0')" 2>/dev/null || echo 0)
git -C /repo worktree add -q --detach $WT HEAD || exit 2
cd $WT
res() { echo "RESULT $(basename $D): $1"; cd /; git -C /repo worktree remove --force $WT; exit $2; }
mkdir -p tests && cp $D/demo.rs tests/demo.rs
demo() { if [ "$HOOKS" = 1 ]; then RUSTFLAGS="--cfg expression_engine_verif" cargo test --offline --test demo >/tmp/confirm-demo.$$.log 2>&1; else cargo test --offline --test demo >/tmp/confirm-demo.$$.log 2>&1; fi; }
demo; base=$?
[ $base -eq 0 ] || { tail -15 /tmp/confirm-demo.$$.log; res "demo does not pass on the unchanged tree" 1; }
git apply $D/patch.diff || res "patch does not apply" 1
cargo test --workspace --no-fail-fast --offline --lib >/tmp/confirm-suite.$$.log 2>&1
suite=$?
cargo test --workspace --no-fail-fast --offline --doc >>/tmp/confirm-suite.$$.log 2>&1 || suite=1
grep -E "^test result" /tmp/confirm-suite.$$.log | tr '\n' ' '
[ $suite -eq 0 ] || res "existing suite fails with the patch" 1
demo; with=$?
[ $with -ne 0 ] || res "demo passes WITH the patch (not a demonstration)" 1
rm -f /tmp/confirm-demo.$$.log /tmp/confirm-suite.$$.log
res "confirmed (suite passes, demo fails with patch, demo passes without)" 0
