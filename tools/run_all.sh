#!/bin/bash
# Runs every claimed check (quick tier by default) on the current tree and validates the evidence.
# usage: tools/run_all.sh [quick|thorough] [seed]
cd /verif
TIER=${1:-quick}; SEED=${2:-1}
rc_all=0
for id in $(python3 -c "import json; print(' '.join(c['property_id'] for c in json.load(open('/verif/MANIFEST.json'))['checks']))"); do
  start=$(date +%s.%N)
  out=$(VERIF_SEED=$SEED VERIF_TIER=$TIER ./check $id 2>&1); rc=$?
  end=$(date +%s.%N)
  known=$(echo "$out" | grep -c "^KNOWN-FINDING")
  printf "%s exit=%d known=%d %.1fs  %s\n" $id $rc $known $(echo "$end-$start" | bc) "$(echo "$out" | grep -m1 "^$id tier" | cut -c1-120)"
  if [ $rc -ne 0 ]; then rc_all=1; echo "$out" | grep -E "VIOLATION|signature|INCONCLUSIVE" | head -5; fi
done
python3-vt -c "
import json,jsonschema,glob
jsonschema.validate(json.load(open('/verif/MANIFEST.json')), json.load(open('/root/.vp/MANIFEST.schema.json')))
for f in sorted(glob.glob('/verif/evidence/*.json')):
    e=json.load(open(f)); jsonschema.validate(e, json.load(open('/root/.vp/EVIDENCE.schema.json')))
print('manifest and evidence valid')" || rc_all=1
exit $rc_all
