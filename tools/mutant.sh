#!/bin/bash
# Applies a patch to /repo, runs the given checks (quick tier), and reverts.  Prints one line per check.
# usage: tools/mutant.sh [-R] <patch> <ID>...
set -u
REV=""
if [ "$1" = "-R" ]; then REV="-R"; shift; fi
P=$(readlink -f "$1"); shift
cd /repo || exit 2
if ! git diff --quiet; then echo "/repo has uncommitted changes"; exit 2; fi
SAVE=$(mktemp -d); cp -a /verif/evidence/. $SAVE/ 2>/dev/null
git apply $REV "$P" || { rm -rf $SAVE; echo "MUTANT $(basename $(dirname $P))/$(basename $P): patch does not apply"; exit 2; }
for id in "$@"; do
  out=$(cd /verif && VERIF_TIER=${TIER:-quick} timeout 1800 ./check $id 2>&1); rc=$?
  sig=$(echo "$out" | grep -m1 "signature:" | sed 's/^ *//')
  echo "MUTANT $(basename $(dirname $P))/$(basename $P) $id exit=$rc $sig"
  if [ "${VERBOSE:-0}" = 1 ]; then echo "$out" | head -30; fi
done
git checkout -- .
# evidence written while the patch was applied describes the patched tree: put the old files back
cp -a $SAVE/. /verif/evidence/ 2>/dev/null; rm -rf $SAVE
