#!/bin/bash
# Sensitivity self-test: every re-introduced defect and every seeded change must make the check of
# its property exit 1 with a VIOLATION line.  usage: tools/selftest.sh [reverts|seeded|all]
cd /verif
what=${1:-all}
declare -A PROP=( [3ea185a]="C01 C10" [d7a52c5]="C01" [117ffb3]="C02" [e89feec]="C02" [84c4d84]="C08" [5da2e3b]="C05" [0342dc3]="C05" [785dfe0]="C04" [c7852e6]="C04" [82a19b4]="C04" [2c253dd]="C04" [7be7c8d]="C14 C15" [1bf11b0]="C17 C03" [e92f234]="C18" [91eb8f7]="C12" [ae9e816]="C12" [0ed175a]="C09" [05d2b72]="C09 C04" [5101689]="C12" [0a8e760]="C01" [aa6bae1]="C12 C07" )
fail=0
if [ "$what" != seeded ]; then
  for f in mutants/revert-*.diff; do
    c=$(basename $f | sed 's/revert-\([0-9a-f]*\).*/\1/')
    for id in ${PROP[$c]}; do
      line=$(tools/mutant.sh $f $id 2>&1 | tail -1 | cut -c1-150); echo "$line"
      echo "$line" | grep -q "exit=1" || fail=1
    done
  done
fi
if [ "$what" != reverts ]; then
  for d in seeded/C*; do n=$(basename $d); id=${n%-*}
    line=$(tools/mutant.sh $d/patch.diff $id 2>&1 | tail -1 | cut -c1-150); echo "$line"
    echo "$line" | grep -q "exit=1" || fail=1
  done
fi
[ $fail -eq 0 ] && echo "SELFTEST: every change was detected" || echo "SELFTEST: some change was NOT detected"
exit $fail
