#!/usr/bin/env python3
"""Writes /verif/MANIFEST.json from the table below (kept in one place so it is always valid)."""
import json, subprocess

CLAIMED = {
 # id: (technique, level text, level note, design ref)
 "C17": ("property-based testing: generated integers/floats/decimals/values against an exact big-integer oracle; exhaustive accessor x variant table",
         "Exploration: every integer type over all magnitudes (uniform + boundary ladders), floats over all exponents, decimals of every scale and the full accessor table are converted and compared with exact arithmetic; held on everything generated. Not a proof.",
         "Trusts Decimal::mantissa()/scale() for reading results and the harness's own big-integer code (unit-tested against hand-computed vectors); float tolerance is stated in the evidence.",
         "DESIGN.md §4 C17"),
}

NOT_YET = {}

def main():
    props = [json.loads(l) for l in open('/verif/properties.jsonl')]
    commits = subprocess.run(['git','-C','/repo','log','--format=%h %s','--grep=^verif hooks'],capture_output=True,text=True).stdout.strip().splitlines()
    checks = []
    na = []
    for p in props:
        pid = p['id']
        if pid in CLAIMED:
            tech, text, note, ref = CLAIMED[pid]
            checks.append({
                "property_id": pid,
                "quick_cmd": f"./check {pid} --tier quick",
                "thorough_cmd": f"./check {pid} --tier thorough",
                "evidence_file": f"/verif/evidence/{pid}.json",
                "replay_cmd_template": f"./check {pid} --replay {{path}}",
                "engine": "vh",
                "level_claimed": {"category": "exploration", "text": text, "design_ref": ref},
                "level_note": note,
                "technique": tech,
            })
        else:
            na.append({"property_id": pid, "reason": NOT_YET.get(pid, "check not built yet in this session (planned: see DESIGN.md §4); not a statement that the technique cannot apply")})
    m = {
        "version": 1,
        "setup_cmd": "./check --setup",
        "hooks": {
            "guard": "--cfg expression_engine_verif",
            "enable": "RUSTFLAGS=\"--cfg expression_engine_verif\" exported by ./check for every cargo invocation (harness and fuzz targets); the harness depends on /repo by path, so cargo rebuilds the engine from the current working tree",
            "baseline_off_cmd": "cd /repo && cargo test --workspace --no-fail-fast --offline",
            "source_commits": [c.split()[0] for c in commits],
            "add_only": True,
        },
        "engines": [
            {"name": "vh", "path": "/verif/harness", "serves_properties": sorted(CLAIMED), "kind_free_text": "Rust binary: proptest-driven choice vectors decoded into cases, explicit oracles (reference tokenizer/parser/recogniser/evaluator, exact big-decimal arithmetic, models of registry and context), process-sharded, child process per scenario where global state matters; libFuzzer targets under harness/fuzz"},
        ],
        "checks": checks,
        "not_applicable": na,
        "notes": "All checks are property-based testing / fuzzing (level: exploration). Known findings: /verif/KNOWN_FINDINGS.txt. Seeded changes used to test sensitivity: /verif/seeded/. Exit 2 = inconclusive (build failure / watchdog that did not reproduce), never a violation.",
    }
    json.dump(m, open('/verif/MANIFEST.json','w'), indent=1)
    print("claimed:", len(checks), "not_applicable:", len(na))

main()
