#!/usr/bin/env python3
"""Writes /verif/MANIFEST.json from the table below (kept in one place so it is always valid)."""
import json, subprocess

CLAIMED = {
 # id: (technique, level text, level note, design ref)


 "C01": ("property-based testing / fuzzing: class-biased token soup and damaged programs under catch_unwind in-process, depth ladder per recursive construct in child processes under a watchdog, both build profiles (libFuzzer byte target planned in thorough tier)",
         "Exploration: ~600k generated strings (every adjacency of the tokenizer's character classes, multi-byte scalars, unterminated constructs, damaged programs) and the operator x edge-palette programs go through parse/execute/expr/describe in the dev and the release build, ~1/48 of the cases in fresh processes with 2-6 user-registered operators (any i32 precedence, both associativities); every recursive construct is nested 1..48, 64, 100, 300, 1000 (must never abort), 3000 and 10000 deep (known stack findings by construct; iterative constructs up to 10^6) in both builds. Held on everything explored apart from the listed known findings.",
         "Termination is decided by watchdog only (30 s vs. milliseconds, reproduced three times); absence of panics is not proven.",
         "DESIGN.md §4 C01"),

 "C03": ("property-based testing: type-directed expression trees against an independent reference evaluator on exact big-integer decimals; exhaustive operator x palette table",
         "Exploration: every built-in binary operator over every ordered pair of a 31-value palette (plain and `not` form), prefix operators, aggregates, and ~400k random typed/ill-typed trees are evaluated and compared (value and variant) with a reference evaluator; wrong operand types must give Err.",
         "Trusts the reference evaluator as the reading of the documented semantics; results the documentation does not pin are marked unspecified and only checked for no-panic (listed in the evidence assumptions).",
         "DESIGN.md §4 C03"),
 "C04": ("property-based testing in two build profiles: exhaustive operator x edge-palette table and generated edge-value trees against checked big-integer reference arithmetic, under catch_unwind",
         "Exploration, exhaustive over the stated table: all arithmetic/bit operators and their compound forms over all ordered pairs of a 46-value edge palette, plus aggregates and postfix/prefix forms, and ~100k random edge-value trees, each in the dev build (overflow checks) and the release build; every numeric fault must be Err, everything else the exact value.",
         "Same reference evaluator as C03; near-limit results that need rounding are not asserted.",
         "DESIGN.md §4 C04"),
 "C06": ("model-based property testing: generated statement sequences run on the engine (execute and parse+exec) and on a model context with the reference evaluator; results and every binding compared",
         "Exploration: ~250k programs of 1-10 statements (all 11 assignment operators, nested/chained assignments, type changes, failing statements at every position, function-bound and unbound targets) with generated initial contexts; program result and the final binding of every name must equal the model.",
         "Same reference evaluator as C03; bindings derived from unspecified values are not compared.",
         "DESIGN.md §4 C06"),
 "C07": ("model-based property testing: programs with logging handlers at every position; the engine's call log is compared with the log predicted by a reference traversal; one injected Err at a generated call position",
         "Exploration: ~200k programs with observable context/global functions and prefix/infix/postfix/SETTER operators; call order, call count, arguments, laziness of conditionals and stop-at-first-error are decided by exact log equality and context equality; a third of the programs are run a second time in the form the engine's own expr() writes them, with the same expectations.",
         "Loggers are harness handlers registered under reserved vh_ names; positions the statement does not pin (non-name assignment targets) carry no observable.",
         "DESIGN.md §4 C07"),
 "C15": ("fault injection by enumeration: for every generated program, every handler invocation k and both modes (Err, panic) the k-th invocation fails; log, unwind payload, context and a follow-up battery are checked against the model",
         "Exploration with per-program exhaustive fault positions: ~170k fault runs over all handler kinds; after each, the same context, fresh contexts on this and on a new thread, registration, and all engine locks must behave as if the evaluation had just stopped.",
         "Panics are injected in-process under catch_unwind; lock state is read through the cfg-guarded locks_free() hook and the context's public mutex.",
         "DESIGN.md §4 C15"),
 "C16": ("stateful property testing: generated histories of exec / parse-only / parse-once-exec-many / re-registration steps dispatched to persistent worker threads and concurrent bursts; every occurrence must reproduce the solo outcome; depth sweeps",
         "Exploration: ~30k histories (6-30 steps, 1-4 threads) over pools of programs that share names; outcomes (result and final context) compared with the reference evaluator's solo outcome, parse results with the reference parser under the last registration; parse-only steps must neither hold a lock nor invoke a registered handler; one history in eight first registers, as an operator, a fresh word that earlier programs used as a plain name; 1/64 of cases cross-check the solo outcome in a fresh process.",
         "Concurrent bursts sample free-running interleavings; the harness's own registrations are modelled.",
         "DESIGN.md §4 C16"),
 "C05": ("property-based testing with an exhaustive component: all token sequences up to length 5 (quick) / 6 (thorough) over a 23-symbol alphabet, plus generated corruptions of valid programs, against a lenient nondeterministic reference recogniser (one-directional oracle)",
         "Exploration, exhaustive over the stated finite space: every sequence of <= 5 (6) tokens over the class alphabet, ~3M corruptions (token level, character level, number-shaped junk) and parse/register/parse histories in fresh processes are parsed; whenever no lenient reading of the documented grammar exists the engine must return Err.",
         "Trusts the recogniser as the lenient reading of the grammar (it can only err toward accepting, which asserts nothing). Acceptance of valid programs is C02/C11/C12's job.",
         "DESIGN.md §4 C05"),
 "C10": ("property-based testing: span invariants on every generated string plus differential comparison with a reference tokenizer written from the documented rules; by-construction token streams; extended operator tables and tokenize/register/tokenize histories in fresh child processes",
         "Exploration: ~450k generated inputs (class soup, structured token lists with empty and non-empty separators) and ~4k operator-table configurations are tokenized through the hook; tiling, char-boundary, exact-text invariants and documented classification are checked on each.",
         "Needs the cfg-guarded tokenizer hook; symbolic operator sets are prefix-closed; numbers beyond 28 digits are not compared.",
         "DESIGN.md §4 C10"),
 "C02": ("property-based testing: generated operator sequences against an independent precedence-climbing reference parser, plus model-free fully-parenthesised metamorphic check; exhaustive operator pairs/triples",
         "Exploration: every built-in infix operator pair (exhaustive, with `not` forms and conditional tails), representative triples, and hundreds of thousands of random flat programs are parsed and compared structurally with a reference parser written from the documented table; held on everything generated.",
         "Trusts the reference parser as the reading of the documented table (itself cross-checked per case by the parenthesised rendering, which needs no precedence knowledge).",
         "DESIGN.md §4 C02"),

 "C08": ("stateful property testing: generated histories of register_* / parse / exec steps, one fresh child process per history over 1-2 persistent threads, against a model registry, the reference parser parameterised by it and a reference evaluator with id-echoing handlers; exhaustive adjacent-precedence table",
         "Exploration: ~4k histories (fresh and built-in names, re-registrations, overrides before first use, precedences incl. adjacent values up to 10^9, context shadowing, cross-thread re-registration, bursts of 2-6 concurrent registrations of different names) plus the exhaustive table of a new operator at q-1, q, q+1 around each built-in level; every parse and every evaluation must match the model.",
         "An operator registered on an existing level takes that level's associativity; postfix spellings are kept disjoint from prefix/infix ones (both undocumented otherwise).",
         "DESIGN.md §4 C08"),
 "C13": ("schedule-directed and free-running concurrency testing in fresh child processes: held initialisation through the init probe, barrier races of first calls, re-registration vs evaluation (directed handshake and free-running), against the set of sequentially possible results and a final-state battery",
         "Exploration: the directed matrix (6 first-call kinds x 3 init stages x 16 concurrent call kinds), ~250 generated held schedules, ~230 barrier races of 2-16 threads, ~200 re-registration races (~800k concurrent evaluations), fresh-word registration races (30000 words each) and registration storms (2-8 threads x 300000 registrations) per quick run; no panic, no deadlock (watchdog), every result sequentially explainable, every registration in effect afterwards. Interleavings the harness cannot force are only sampled.",
         "Needs the cfg-guarded init probe; deadlock = 10 s watchdog reproduced; the listed known finding (torn registration) is tolerated by exact signature only.",
         "DESIGN.md §4 C13"),
 "C14": ("exhaustive matrix plus generated chains in fresh child processes: every handler kind x every re-entrant action, each handler probing all engine locks with try_lock before acting, under a watchdog",
         "Exploration, exhaustive over the stated matrix: 15 handler kinds x 16 re-entrant actions (incl. re-registering the running handlers and registering an operator used later in the running program), all ordered kind pairs x 5 actions, 8 x 8 shared-handle scenarios (a second evaluation on the same context handle while a context function holds its guard and re-enters the engine) and ~40000 generated chains of 2-4 handlers; every handler finds all registries and the evaluating context unlocked, the action completes and the outer evaluation returns the hand-computed value.",
         "Lock state through the cfg-guarded locks_free() hook and the context's public mutex; single-threaded evaluations, so a held lock is attributable to the engine.",
         "DESIGN.md §4 C14"),
 "C18": ("stateful property testing: generated descriptor-registration histories in fresh child processes over 1-3 persistent threads; describe() of every AST after every step on every thread against a model registry of marker descriptors; exhaustive single-registration table",
         "Exploration: ~3k histories (nine node kinds, names shared across kinds, re-registrations, cross-thread registration) with ~65k describe() comparisons, plus the 9 kinds x name table and, per kind, a race between replacing a registered descriptor and concurrent describe() calls; rendering must use exactly the registered descriptor and the documented default otherwise.",
         "Registrations go through the cfg-guarded re-export of DescriptorManager; ASTs come from fully parenthesised text.",
         "DESIGN.md §4 C18"),
 "C09": ("property-based testing: generated decimal literals and operand pairs against exact big-integer decimal arithmetic; malformed-literal corpus and generator",
         "Exploration: literals of every digit count/scale and pairs under + - * % < <= > >= == != and compound forms are evaluated and compared with exact arithmetic whenever the exact result is representable; malformed literals must be rejected; a literal assigned over an earlier literal must keep its own mantissa and scale.",
         "Trusts the harness's big-integer decimal code (unit-tested); results that need rounding are not asserted.",
         "DESIGN.md §4 C09"),
 "C11": ("property-based testing, metamorphic: AST(canonical) == AST(re-laid-out) == AST(with redundant parentheses) over generated programs",
         "Exploration: generated programs are re-rendered with random whitespace (incl. empty where lexically safe) at every token boundary and with 1-3 pairs of parentheses around complete subexpressions; all renderings must give the same AST; one case in 64 does so in a fresh process with 13 user-registered operators (some registered in several positions under one spelling). One known finding (parentheses closing after a postfix operator in front of a spelling registered as postfix and infix) is tolerated by its classified signature only.",
         "Token boundaries and subexpression spans come from the generator / reference parser; no oracle for the tree itself is needed.",
         "DESIGN.md §4 C11"),
 "C12": ("property-based testing, round trip: parse(expr(parse(s))) == parse(s) and idempotent rendering; exhaustive parent/child operator placements",
         "Exploration: all 32x32x2 parent/child infix placements, prefix/postfix/conditional placements and hundreds of thousands of random programs (a third with a user operator re-registered at precedences 0..205 and either associativity, also followed by non-infix operator tokens) are parsed, rendered with expr(), re-parsed and compared structurally (numbers by mantissa and scale).",
         "Trusts structural comparison of the engine's own AST type; names are never operator words (the property's precondition).",
         "DESIGN.md §4 C12"),
 "C17": ("property-based testing: generated integers/floats/decimals/values against an exact big-integer oracle; exhaustive accessor x variant table",
         "Exploration: every integer type over all magnitudes (uniform + boundary ladders), floats over all exponents (integer-valued ones must be exact, float() must be correctly rounded), decimals of every scale and the full accessor table are converted and compared with exact arithmetic; held on everything generated apart from the listed known findings. Not a proof.",
         "Trusts Decimal::mantissa()/scale() for reading results and the harness's own big-integer code (unit-tested against hand-computed vectors); float tolerance is stated in the evidence.",
         "DESIGN.md §4 C17"),
}

NOT_YET = {}

def main():
    props = [json.loads(l) for l in open('/verif/properties.jsonl')]
    commits = subprocess.run(['git','-C','/repo','log','--format=%h %s','--grep=^verif hooks'],capture_output=True,text=True).stdout.strip().splitlines()
    checks = []
    na = []
    for p in props:
        pid = p['id']
        if pid in CLAIMED:
            tech, text, note, ref = CLAIMED[pid]
            checks.append({
                "property_id": pid,
                "quick_cmd": f"./check {pid} --tier quick",
                "thorough_cmd": f"./check {pid} --tier thorough",
                "evidence_file": f"/verif/evidence/{pid}.json",
                "replay_cmd_template": f"./check {pid} --replay {{path}}",
                "engine": "vh",
                "level_claimed": {"category": "exploration", "text": text, "design_ref": ref},
                "level_note": note,
                "technique": tech,
            })
        else:
            na.append({"property_id": pid, "reason": NOT_YET.get(pid, "check not built yet in this session (planned: see DESIGN.md §4); not a statement that the technique cannot apply")})
    m = {
        "version": 1,
        "setup_cmd": "./check --setup",
        "hooks": {
            "guard": "--cfg expression_engine_verif",
            "enable": "RUSTFLAGS=\"--cfg expression_engine_verif\" exported by ./check for every cargo invocation (harness and fuzz targets); the harness depends on /repo by path, so cargo rebuilds the engine from the current working tree",
            "baseline_off_cmd": "cd /repo && cargo test --workspace --no-fail-fast --offline",
            "source_commits": [c.split()[0] for c in commits],
            "add_only": True,
        },
        "engines": [
            {"name": "vh", "path": "/verif/harness", "serves_properties": sorted(CLAIMED), "kind_free_text": "Rust binary: proptest-driven choice vectors decoded into cases, explicit oracles (reference tokenizer/parser/recogniser/evaluator, exact big-decimal arithmetic, models of registry and context), process-sharded, child process per scenario where global state matters; libFuzzer targets under harness/fuzz"},
        ],
        "checks": checks,
        "not_applicable": na,
        "notes": "All checks are property-based testing / fuzzing (level: exploration). Known findings: /verif/KNOWN_FINDINGS.txt. Seeded changes used to test sensitivity: /verif/seeded/. Exit 2 = inconclusive (build failure / watchdog that did not reproduce), never a violation.",
    }
    json.dump(m, open('/verif/MANIFEST.json','w'), indent=1)
    print("claimed:", len(checks), "not_applicable:", len(na))

main()
