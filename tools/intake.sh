#!/bin/bash
# Takes the two changes a round-N sub-agent left in /tmp/w<N>-<ID>/out/mut{1,2}, confirms each in a
# scratch worktree (tools/confirm_seeded.sh), files the confirmed ones as seeded/<ID>-<k>, runs the
# property's quick check against them (tools/mutant.sh) and removes the agent's worktree.
# usage: tools/intake.sh <round> <ID> <first free index>
set -u
R=$1; ID=$2; K=$3
W=/tmp/w$R-$ID
cd /verif
for i in 1 2; do
  D=$W/out/mut$i
  [ -f $D/patch.diff ] || { echo "INTAKE $ID mut$i: missing"; continue; }
  out=$(tools/confirm_seeded.sh $D 2>&1 | tail -1)
  echo "INTAKE $ID mut$i: $out"
  if echo "$out" | grep -q "confirmed"; then
    T=seeded/$ID-$K; K=$((K+1))
    mkdir -p $T; cp $D/patch.diff $D/demo.rs $T/
    python3 - "$D/meta.json" "$T/meta.json" "$ID" "$R" <<'PY'
import json,sys
m=json.load(open(sys.argv[1]))
m['breaks_property']=sys.argv[3]; m['round']=int(sys.argv[4])
m['origin']=f"independent sub-agent (round {sys.argv[4]}) given only the property text, the summaries of the earlier changes for that property (to avoid repeats) and a scratch worktree of /repo"
m['confirmed']={"by":"tools/confirm_seeded.sh in a scratch worktree of /repo HEAD","what":"patch applies; cargo test --workspace (187 unit + 7 doc) passes with it; demo.rs (as tests/demo.rs) fails with it and passes without it"}
json.dump(m,open(sys.argv[2],'w'),indent=1,ensure_ascii=False)
PY
    tools/mutant.sh $T/patch.diff $ID 2>&1 | tail -1 | cut -c1-220
  else
    mkdir -p /tmp/w$R-unconfirmed/$ID-mut$i; cp -r $D/. /tmp/w$R-unconfirmed/$ID-mut$i/
  fi
done
git -C /repo worktree remove --force $W
